----------------------------- MODULE MC_BitField -----------------------------
(***************************************************************************)
(* Bounded instances of BitField:                                          *)
(*  - MC_BitField_w4*.cfg : the fictitious 4-bit word, every backend       *)
(*    content of up to MaxWords words x every width 0..4 x every length,   *)
(*    every operation with every argument; all design invariants in every  *)
(*    reachable state (exhaustive; history hidden by VIEW).                *)
(*  - MC_BitField_w8_design.cfg : W = 8 (a real instantiation,             *)
(*    BitFieldVec<u8>), pattern backends; adds the byte-level unaligned    *)
(*    read to the invariants.                                              *)
(*  - MC_BitField_w8_d*.cfg : W = 8, every history of Depth mutators over  *)
(*    menus aimed at the word boundaries is exported as a script that      *)
(*    replays on BitFieldVec<u8> without scaling (spec -> implementation). *)
(***************************************************************************)
EXTENDS BitField, TLC, Json

CONSTANTS WT,            \* word type of the instance ("u4" or "u8")
          Widths,        \* bit widths explored
          MaxWords,      \* state constraint: backend words
          Depth,         \* number of mutating operations per exported history
          Export,        \* TRUE: print scripts; FALSE: exhaustive design check
          Heavy,         \* TRUE: the larger argument menus of the design invariants (thorough tier)
          Garbage        \* TRUE (export only): start from every garbage pattern beyond the contents (C14)

VARIABLE hist
mcvars == <<wt, width, abs, store, nw, form, built, hist>>

WW == WOf(WT)
Asc(S) == SetToSortSeq(S, LAMBDA a, b : a < b)

\* ----- menus ------------------------------------------------------------
\* values as ascending position sequences (the JSON form)
AllVals(wd)  == {Asc(s) : s \in SUBSET Low(wd)}
EdgeVals(wd) == {Asc(s) : s \in {{}, Low(wd), {wd - 1} \cap Low(wd), {0} \cap Low(wd),
                                 {b \in Low(wd) : b % 2 = 0}}}
BadVals(wd)  == IF wd < WW THEN {Asc({wd}), Asc(Low(WW))} ELSE {}
Patterned    == Export \/ WW > 4        \* pattern backends and edge values instead of all of them
ValsOf(wd)   == IF Patterned THEN EdgeVals(wd) ELSE AllVals(wd)

\* lengths around the word boundaries for a width
LensOf(wd) ==
    IF wd = 0 THEN {0, 1, 3}
    ELSE {n \in {0, 1, WW \div wd, WW \div wd + 1, (2 * WW) \div wd, (2 * WW) \div wd + 1} :
             n * wd <= MaxWords * WW}

SmallIdx == Low(BLen + 1)
Idx      == {0, BLen - 1, BLen, IF width = 0 THEN 1 ELSE WW \div width} \cap Nat

\* raw constructors over dirty storage
AllRaw ==   \* small model: every backend content, every width, every length that fits
    IF Patterned THEN {} ELSE     \* (TLC evaluates constant definitions at start-up)
    UNION { UNION { UNION { { [op |-> "raw", width |-> wd, rlen |-> n, rnw |-> k, rstore |-> Asc(s)] :
                                s \in SUBSET Low(k * WW) } :
                            n \in 0 .. (IF wd = 0 THEN 3 ELSE (k * WW) \div wd) } :
                    \* (a zero-width vector over an empty backend is a recorded finding: get reads word 0)
                    k \in (IF wd = 0 THEN 1 ELSE 0) .. MaxWords } :
            wd \in Widths }

Patterns(n, wd, k) ==   \* contents distinct per element where possible; garbage beyond them
    LET bits == n * wd
        cont == {p \in Low(bits) : ((p \div wd) + (p % wd)) % 2 = 0 \/ (p % wd) = (p \div wd) % wd}
    IN  { cont \cup Rng(bits, k * WW), cont \cup {p \in Rng(bits, k * WW) : p % 2 = 1}, Low(bits), Low(k * WW) \ cont }

Dirty ==
    UNION { UNION { UNION { { [op |-> "raw", width |-> wd, rlen |-> n, rnw |-> k, rstore |-> Asc(s)] :
                                s \in Patterns(n, wd, k) } :
                            k \in {OneOr(CeilDiv(n * wd, WW)), CeilDiv(n * wd, WW) + 1} \cap (0 .. MaxWords) } :
                    n \in LensOf(wd) } :
            wd \in Widths }

CtorMenu ==
    UNION { { [op |-> "new", width |-> wd, n |-> n] : n \in LensOf(wd) }
            \cup { [op |-> "new_unaligned", width |-> wd, n |-> n] : n \in {m \in LensOf(wd) : CeilDiv(m * wd, WW) < MaxWords} }
            \cup { [op |-> "with_capacity", width |-> wd, c |-> 2] }
            : wd \in Widths }

\* export: fewer constructors (clean at every boundary length, dirty with one spare word)
XCtors ==
    UNION { { [op |-> "new", width |-> wd, n |-> n] : n \in LensOf(wd) }
            \cup { [op |-> "raw", width |-> wd, rlen |-> n, rnw |-> CeilDiv(n * wd, WW) + 1,
                   rstore |-> Asc({p \in Low(n * wd) : ((p \div wd) + (p % wd)) % 2 = 0 \/ (p % wd) = (p \div wd) % wd}
                                  \cup Rng(n * wd, (CeilDiv(n * wd, WW) + 1) * WW))] :
                    n \in {m \in {1, WW \div wd + 1, (2 * WW) \div wd} : CeilDiv(m * wd, WW) < MaxWords} }
            \cup { [op |-> "new_unaligned", width |-> wd, n |-> (WW \div wd) + 1] }
            : wd \in Widths \ {0} }
    \cup { [op |-> "new", width |-> 0, n |-> 3], [op |-> "with_capacity", width |-> 0, c |-> 2],
           [op |-> "raw", width |-> 0, rlen |-> 2, rnw |-> 1, rstore |-> Asc(Low(WW))] }

\* C14 export: fixed contents, every subset of the positions of the last word beyond them
\* (at most 7), one more spare word all ones
GarbCtors ==
    UNION { UNION { { [op |-> "raw", width |-> wd, rlen |-> n, rnw |-> CeilDiv(n * wd, WW) + 1,
                       rstore |-> Asc({p \in Low(n * wd) : ((p \div wd) + (p % wd)) % 2 = 0} \cup gs
                                      \cup Rng(CeilDiv(n * wd, WW) * WW, (CeilDiv(n * wd, WW) + 1) * WW))] :
                        gs \in SUBSET Rng(n * wd, CeilDiv(n * wd, WW) * WW) } :
                    n \in {1, WW \div wd + 1} } :
            wd \in Widths \ {0} }

\* the second vector of copy / eq: same width, complement of our contents, dirty tail
OtherMenu ==
    LET bits == BitLen IN
    { [olen |-> BLen, onw |-> nw, ostore |-> Asc(Low(nw * WW) \ store)] }
    \cup (IF Export \/ ~Heavy THEN {} ELSE
          { [olen |-> BLen, onw |-> nw, ostore |-> Asc(Low(nw * WW))], [olen |-> BLen, onw |-> nw, ostore |-> <<>>] })

ChunkSizes == {c \in 1 .. (BLen + 1) : c = BLen \/ c = BLen + 1 \/ (c * width) % WW = 0 \/ c = 1}
ChunkActs0(c) ==
    LET nv == CeilDiv(BLen, c)  lastv == MaxOf(nv, 1) - 1 IN
    <<[j |-> 0, k |-> 0], [j |-> lastv, k |-> 0, v |-> Asc(Low(width))], [j |-> lastv, k |-> 0],
      [j |-> 0, k |-> c - 1, v |-> <<>>], [j |-> nv, k |-> 0], [j |-> 0, k |-> c]>>

ApplyKinds == IF Export THEN {"not", "xorprev"}
              ELSE IF Heavy THEN {"id", "not", "xor", "and", "or", "const", "shl1", "xorprev"}
              ELSE {"not", "shl1", "xorprev"}

Mutators(I) ==
    { [op |-> "push", v |-> v] : v \in ValsOf(width) \cup BadVals(width) }
    \cup { [op |-> "pop"], [op |-> "clear"], [op |-> "reset"] }
    \cup { [op |-> "set", i |-> i, v |-> v] : i \in I, v \in ValsOf(width) \cup BadVals(width) }
    \cup { [op |-> "resize", n |-> n, v |-> v] : n \in LensOf(width), v \in EdgeVals(width) }
    \cup { [op |-> "extend", vals |-> <<v, v>>] : v \in EdgeVals(width) }
    \cup { [op |-> "apply", kind |-> k, m |-> Asc({0} \cap Low(width))] : k \in ApplyKinds }
    \cup { [op |-> "copy_from", from |-> f, to |-> t, n |-> n] @@ o :
              f \in {0, 1} \cap (0 .. BLen), t \in {0, 1, BLen} \cap (0 .. BLen), n \in {BLen, 1}, o \in OtherMenu }
    \cup { [op |-> "chunks", c |-> c, acts |-> ChunkActs0(c)] : c \in (IF width = 0 THEN {} ELSE ChunkSizes) }
    \cup { [op |-> "into", to |-> t] : t \in {"boxed", "vec", "atomic", "atomic_boxed"} }
    \cup { [op |-> "a_set", i |-> i, v |-> v] : i \in I, v \in EdgeVals(width) \cup BadVals(width) }
    \cup { [op |-> "a_reset"] }
    \cup (IF Export THEN { [op |-> "reload", mode |-> "eps"], [op |-> "reload", mode |-> "full"] } ELSE {})

\* export: one or two representatives of every operation, aimed at the boundaries
Ones == Asc(Low(width))
Alt  == Asc({b \in Low(width) : b % 2 = 0})
XMutators ==
    { [op |-> "push", v |-> Ones], [op |-> "push", v |-> IF width < WW THEN Asc({width}) ELSE Alt], [op |-> "pop"], [op |-> "clear"], [op |-> "reset"],
      [op |-> "set", i |-> IF BLen = 0 THEN 0 ELSE BLen - 1, v |-> Alt],
      [op |-> "set", i |-> IF width = 0 THEN 1 ELSE WW \div width, v |-> Ones],
      [op |-> "resize", n |-> IF width = 0 THEN 2 ELSE WW \div width, v |-> Ones],
      [op |-> "resize", n |-> IF width = 0 THEN 5 ELSE (2 * WW) \div width + 1, v |-> Alt],
      [op |-> "extend", vals |-> <<Ones, <<>>>>],
      [op |-> "apply", kind |-> "xorprev", m |-> <<>>],
      [op |-> "into", to |-> "boxed"], [op |-> "into", to |-> "atomic"], [op |-> "into", to |-> "vec"],
      [op |-> "a_set", i |-> IF BLen = 0 THEN 0 ELSE BLen - 1, v |-> Ones], [op |-> "a_reset"],
      [op |-> "reload", mode |-> "eps"] }
    \cup { [op |-> "copy_from", from |-> 1, to |-> 0, n |-> BLen] @@ o : o \in OtherMenu }
    \cup { [op |-> "chunks", c |-> c, acts |-> ChunkActs0(c)] :
              c \in (IF width = 0 THEN {} ELSE {IF (WW % width) = 0 THEN WW \div width ELSE WW, BLen + 1}) }

\* observers appended to every exported history (all are checked by the trace spec)
Battery ==
    IF form \in {"vec", "boxed", "eps", "mmap"}
    THEN <<[op |-> "len"], [op |-> "iter"], [op |-> "ruiter", n |-> BLen],
           [op |-> "uiter", from |-> BLen \div 2, n |-> BLen - BLen \div 2],
           [op |-> "iter_from", from |-> BLen], [op |-> "get", i |-> BLen],
           [op |-> "get_unaligned", i |-> IF BLen = 0 THEN 0 ELSE BLen - 1],
           [op |-> "eq_other", owidth |-> width, olen |-> BLen, onw |-> nw, ostore |-> Asc(store \cap Low(BitLen))],
           [op |-> "eq_other", owidth |-> width, olen |-> BLen, onw |-> nw,
            ostore |-> Asc((store \cap Low(BitLen)) \cup Rng(BitLen, nw * WW))],
           \* one element longer over the same storage: never equal
           [op |-> "eq_other", owidth |-> width, olen |-> BLen + 1, onw |-> nw + 1, ostore |-> Asc(store)],
           [op |-> "copy_to", from |-> 0, to |-> IF BLen > 0 THEN 1 ELSE 0, n |-> BLen,
            olen |-> BLen, onw |-> nw, ostore |-> Asc(Low(nw * WW) \ store)],
           [op |-> "mem_size"]>>
    ELSE <<[op |-> "a_len"], [op |-> "a_all"], [op |-> "a_get", i |-> BLen]>>

\* ----- behaviour --------------------------------------------------------
MCInit == BFInit(WT) /\ hist = <<>>

Construct == /\ form = "none"
             /\ \E op \in (IF Export THEN (IF Garbage THEN GarbCtors ELSE XCtors) ELSE IF Patterned THEN CtorMenu \cup Dirty ELSE CtorMenu \cup AllRaw) :
                    Do(op) /\ hist' = <<op>>

Mutate == /\ form # "none"
          /\ (Depth = 0 \/ Len(hist) <= Depth)
          /\ \E op \in (IF Export THEN XMutators ELSE Mutators(IF Patterned THEN Idx ELSE SmallIdx)) :
               /\ Applicable(op)
               /\ LET x == Eff(op, CodeGrowth(op)) IN
                     /\ (Export \/ x.out = "ret")
                     \* the bound is part of the action: states beyond it are never generated
                     /\ x.st.nw <= MaxWords /\ Len(x.st.abs) * x.st.width <= MaxWords * WW
                     /\ (x.st.width = 0 => Len(x.st.abs) <= 3)
                     /\ Install(x.st)
               /\ hist' = IF Depth > 0 THEN Append(hist, op) ELSE hist

MCNext == Construct \/ Mutate
MCSpec == MCInit /\ [][MCNext]_mcvars

Bound == nw <= MaxWords /\ BitLen <= MaxWords * WW

View == <<wt, width, abs, store, nw, form, Len(hist)>>

\* one line per complete history
Emit == (Export /\ Len(hist) = Depth + 1) =>
            PrintT(<<"SCRIPT", ToJson([fam |-> "bitfield", wt |-> WT, src |-> "tlc", ops |-> hist \o Battery])>>)

\* ----- invariants of the bounded model ------------------------------------
\* a panic must leave everything unchanged, whatever the operation (checked on
\* the whole menu in every state, including arguments out of range)
PanicsAreClean ==
    \A op \in Mutators({0, BLen, BLen + 1}) :
        LET x == Eff(op, CodeGrowth(op)) IN (x.out = "panic" /\ op.op # "extend") => x.st = Same

\* every growth choice made by the code is admissible
CodeGrowthOK ==
    \A op \in Mutators(SmallIdx) :
        LET x == Eff(op, CodeGrowth(op)) IN
        (Applicable(op) /\ x.out = "ret") => GrowOK(op, x.st.abs, x.st.width, CodeGrowth(op))

\* neighbours are never disturbed: an element write changes the positions of that element only
NeighboursUntouched ==
    \A op \in { [op |-> "set", i |-> i, v |-> v] : i \in SmallIdx, v \in EdgeVals(width) } :
        LET x == Eff(op, CodeGrowth(op)) IN
        x.out = "ret" => /\ \A j \in Low(BLen) : j # op.i => x.st.abs[j + 1] = abs[j + 1]
                         /\ BfSymDiff(x.st.store, store) \subseteq Rng(op.i * width, (op.i + 1) * width)

DesignSetAll   == form # "vec" \/ DesignSet({ToSet(v) : v \in EdgeVals(width)})
DesignApplyAll == form # "vec" \/ DesignApply(ApplyKinds, IF Heavy THEN {{}, {0} \cap Low(width), Low(width)} ELSE {Low(width)})
DesignCopyAll  ==
    form # "vec" \/
    \A o \in OtherMenu : \A f \in 0 .. BLen : \A t \in 0 .. BLen : \A n \in (IF Heavy THEN {0, 1, 2, BLen, BLen + 1} ELSE {1, BLen}) :
        DesignCopy(ToSet(o.ostore), o.olen, o.onw, f, t, n)
\* (the design operators depend on width, abs, store, nw only: evaluated in the "vec" states,
\*  every such combination being an initial raw state of the small model)
DesignAll == form # "vec" \/ (DesignAccess /\ DesignIter /\ DesignEq /\ DesignReset /\ DesignChunks /\ DesignUnaligned)
=============================================================================
