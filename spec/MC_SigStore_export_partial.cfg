SPECIFICATION MCSpec
CONSTANTS
  RB = 2
  Kinds = {"online", "offline"}
  BBs = {0, 1, 2}
  MBs = {2}
  Tops = {0, 3, 7}
  Lows = {0}
  MaxPush = 2
  MaxBorrowed = 1
  Partial = TRUE
  BadBits = FALSE
  Export = TRUE
INVARIANTS PrefixInv PassInv NoOOB Emit
CHECK_DEADLOCK FALSE
