SPECIFICATION MCSpec
CONSTANTS
  Depth = 4
  KindMenu = {"line_cursor", "line_buf", "line_file", "zstd_cursor", "zstd_file", "gzip_cursor", "gzip_file", "fromiter", "range"}
  TakeMenu <- Takes4
  WithNexts = FALSE
  LinesLen = 6
  Export = TRUE
INVARIANTS Inv LinesOK Emit
CHECK_DEADLOCK FALSE
