------------------------------ MODULE SliceSeq ------------------------------
(***************************************************************************)
(* sux::dict::SliceSeq: a slice of usize exhibited as an indexed sequence  *)
(* (IndexedSeq + iteration from a position).  The abstract state is the    *)
(* sequence itself; the adapter owns nothing and changes nothing.          *)
(*                                                                         *)
(* Eff(op) gives, for one public call, the admissible outcomes and the     *)
(* result:                                                                 *)
(*   len, is_empty          always return                                  *)
(*   get(i)                 returns xs[i] for i < len, panics otherwise    *)
(*                          (C12: never reads outside the slice)           *)
(*   get_unchecked(i)       only called with i < len                       *)
(*   iter / into_iter       the whole sequence                             *)
(*   into_iter_from(k)      xs[k..]; nothing for k >= len (a start at or   *)
(*                          past the end is not an error: it is `skip`)    *)
(*   eq(other)              derived equality: same elements in order       *)
(* Positions at or above 2^31-1 are logged as the sentinel Huge, which is   *)
(* above every length used here.                                           *)
(***************************************************************************)
EXTENDS Naturals, Sequences

VARIABLE xs
N == Len(xs)
Huge == 2147483647

Ops == {"len", "is_empty", "get", "get_unchecked", "iter", "into_iter", "into_iter_from", "eq"}

Ret(r) == [outs |-> {"ret"}, res |-> r]
Eff(op) ==
    CASE op.op = "len"      -> Ret(N)
      [] op.op = "is_empty" -> Ret(N = 0)
      [] op.op = "get"      -> IF op.i < N THEN Ret(xs[op.i + 1]) ELSE [outs |-> {"panic"}, res |-> 0]
      [] op.op = "get_unchecked" -> IF op.i < N THEN Ret(xs[op.i + 1]) ELSE [outs |-> {}, res |-> 0]   \* bad script
      [] op.op \in {"iter", "into_iter"} -> Ret(xs)
      [] op.op = "into_iter_from" -> Ret(IF op.k >= N THEN <<>> ELSE SubSeq(xs, op.k + 1, N))
      [] op.op = "eq"       -> Ret(op.other = xs)
      [] OTHER              -> [outs |-> {}, res |-> 0]

\* the design of into_iter_from (Skip over the copied slice iterator): k calls
\* of next that are thrown away, each a no-op once the iterator is exhausted
RECURSIVE SkipFrom(_, _)
SkipFrom(s, k) == IF k = 0 \/ s = <<>> THEN s ELSE SkipFrom(Tail(s), k - 1)
SkipIsSubSeq(k) == SkipFrom(xs, k) = (IF k >= N THEN <<>> ELSE SubSeq(xs, k + 1, N))
=============================================================================
