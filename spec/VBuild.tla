------------------------------- MODULE VBuild -------------------------------
(***************************************************************************)
(* sux::func::VBuilder / VFunc / sux::dict::VFilter (properties C07, C08,  *)
(* C17 and the family's share of C11, C12, C15).                           *)
(*                                                                         *)
(* Part A - the abstract object.  Keys are abstract *indices*: an episode  *)
(* names an injective key function K (index -> key) and a build names a    *)
(* key *sequence* (position -> index: the identity on 0..n-1 except for a  *)
(* few substitutions, which is how duplicates are expressed) and a value   *)
(* recipe on positions.  A built function is the map  K(IdxAt(p)) |->      *)
(* ValAt(p) ; a built filter is the set  { K(IdxAt(p)) } .  Operators      *)
(* give, for every public operation, the admissible outcome and result.    *)
(*                                                                         *)
(* Part B - the build loop.  One transition per step of                    *)
(* VBuilder::build_loop / try_seed, labelled by the hook event the code    *)
(* emits at that step (sux::verif::build_event).  Step(s, c, e) is the     *)
(* deterministic acceptor used both by the bounded model (MC_VBuild: the   *)
(* design  CodeEvents  may only emit events that Step accepts, and the     *)
(* properties OkIsWhole, ErrorsSurface, DupBound, HintIrrelevant hold in   *)
(* every reachable state) and by trace validation (Trace_VBuild: the hook  *)
(* events recorded from the real code must be a run of Step, and the       *)
(* returned result must be the one the final state prescribes).            *)
(***************************************************************************)
EXTENDS Naturals, Sequences, FiniteSets, Wide

SeqToSet(s) == {s[k] : k \in 1 .. Len(s)}
Pow2(k)     == 2 ^ k
MaxOf(a, b) == IF a > b THEN a ELSE b
MinOf(a, b) == IF a < b THEN a ELSE b
CeilDivV(a, b) == (a + b - 1) \div b

(***************************************************************************)
(* A. Keys, values, membership                                             *)
(*                                                                         *)
(* A build record  b  has (same names as the JSON script):                 *)
(*   n          number of positions of the key sequence                    *)
(*   subst      sequence of <<position, index>> pairs                      *)
(*   vals       [a, c, m, hi, vn]: value of position p is                  *)
(*              ((a*p + c) mod 2^m) + (2^hi[1] if hi # <<>>) ; the value   *)
(*              source ends after vn[1] values if vn # <<>>                *)
(*   kind       "func" | "filter" ; backend "box" | "bfv" ; wt word type   *)
(*   bits       requested hash bits of a bit-field filter                  *)
(*   check_dups, hint (<<>> or <<h>>), faults (sequence of fault records)  *)
(***************************************************************************)
Subst(b) == SeqToSet(b.subst)

IdxAt(b, p) ==
    LET S == {s \in Subst(b) : s[1] = p}
    IN  IF S = {} THEN p ELSE (CHOOSE s \in S : TRUE)[2]

\* two distinct positions carry the same index (cost O(|subst|^2), n may be 10^6)
HasDups(b) ==
    \/ \E s \in Subst(b) :
          /\ s[2] # s[1]
          /\ s[2] < b.n
          /\ \A t \in Subst(b) : t[1] = s[2] => t[2] = s[2]
    \/ \E s, t \in Subst(b) : s[1] # t[1] /\ s[2] = t[2]

\* the substitutions are well formed (positions inside the sequence, one per position)
SubstOK(b) ==
    /\ \A s \in Subst(b) : s[1] < b.n
    /\ \A s, t \in Subst(b) : s[1] = t[1] => s = t

\* positions holding index i
PosOf(b, i) ==
    {s[1] : s \in {t \in Subst(b) : t[2] = i}}
        \cup (IF i < b.n /\ IdxAt(b, i) = i THEN {i} ELSE {})

Member(b, i) == PosOf(b, i) # {}

\* an upper bound (exclusive) on the indices used by the key sequence
IdxBound(b) ==
    LET S == {s[2] : s \in Subst(b)}
    IN  IF S = {} THEN b.n
        ELSE LET mx == CHOOSE x \in S : \A y \in S : y <= x
             IN  MaxOf(b.n, mx + 1)

WordBits(wt) == CASE wt = "u8" -> 8 [] wt = "u16" -> 16 [] wt = "u32" -> 32
                  [] wt = "u64" -> 64 [] wt = "usize" -> 64

\* low part of the value of position p (generators keep a*p + c below 2^31)
ValLow(b, p) == (b.vals.a * p + b.vals.c) % Pow2(b.vals.m)
\* the value as a plain integer (only used when it is below 2^31)
ValPlain(b, p) == ValLow(b, p) + (IF b.vals.hi = <<>> THEN 0 ELSE Pow2(b.vals.hi[1]))
\* the value as base-2^15 limbs (hi >= 30 > m never carries into the low part)
WPow2(t) == [k \in 1 .. (t \div 15) |-> 0] \o <<Pow2(t % 15)>>
ValWide(b, p) ==
    IF b.vals.hi = <<>> THEN WOfNat(ValLow(b, p))
    ELSE WAdd(WOfNat(ValLow(b, p)), WPow2(b.vals.hi[1]))

\* hash width of a filter
HashBits(b) == IF b.backend = "bfv" THEN b.bits ELSE WordBits(b.wt)

\* an upper bound on the width of the values of a function (exact when the
\* recipe does not wrap around 2^m). The value 0 counts as a one-bit value
\* (the crate sizes the cells with UnsignedInt::len, and len(0) = 1), so an
\* all-zero or empty function has b = 1.
RECURSIVE BitLen(_)
BitLen(x) == IF x = 0 THEN 0 ELSE 1 + BitLen(x \div 2)
ValWidth(b) ==
    IF b.backend = "box" THEN WordBits(b.wt)
    ELSE IF b.kind = "filter" THEN b.bits
    ELSE IF b.vals.hi # <<>> THEN b.vals.hi[1] + 1
    ELSE IF b.n = 0 THEN 1
    ELSE IF b.vals.a * (b.n - 1) + b.vals.c < Pow2(b.vals.m)
         THEN MaxOf(1, BitLen(b.vals.a * (b.n - 1) + b.vals.c))
         ELSE MaxOf(1, b.vals.m)

(***************************************************************************)
(* C08: acceptance rule for a batch of m probes with keys disjoint from    *)
(* the set, pos of which were answered "contained".  With e = m / 2^b the  *)
(* count must satisfy (pos - e)^2 <= 36 e + 36 (six sigma of a binomial    *)
(* with mean e, both sides).  m = 64 * 2^b (e = 64) for b <= 20 and        *)
(* m = 2^20 (e = 2^-(b-20) < 1) above, evaluated in integers.              *)
(***************************************************************************)
ProbeCount(hb) == IF hb <= 20 THEN 64 * Pow2(hb) ELSE Pow2(20)

FpOk(hb, m, pos) ==
    /\ m = ProbeCount(hb)
    /\ IF hb <= 20
       THEN (IF pos >= 64 THEN (pos - 64) * (pos - 64) ELSE (64 - pos) * (64 - pos)) <= 36 * 64 + 36
       ELSE LET k == hb - 20 IN
            IF k <= 12
            THEN pos <= 8 /\ (pos = 0 \/ (pos * Pow2(k) - 1) * (pos * Pow2(k) - 1)
                                              <= 36 * Pow2(k) + 36 * Pow2(2 * k))
            ELSE pos <= 6

(***************************************************************************)
(* C11: space.  A function/filter over n keys with b-bit values takes at   *)
(* most 1.23 n b bits, 1.135 n b from 100000 keys upward, plus an additive *)
(* constant that comes from the allocation granularity of the code:        *)
(*  - the array of every shard is a whole number (at least three) of       *)
(*    segments of 2^s cells: one segment of rounding per shard, and never  *)
(*    less than three segments.  SegCap is the *documented* segment size   *)
(*    (lazy-Gaussian regime: s = max(1, floor(0.85 ln m)); peeling regime: *)
(*    s = floor(ln m / ln 3.33 + 2.25)), tabulated by thresholds on the    *)
(*    shard size m;                                                        *)
(*  - FixedWords = 14 words of 64 bits: the struct itself (shard/edge      *)
(*    parameters, seed, key count, backend header, filter mask and hash    *)
(*    width: at most 12 words), the rounding of the backend to a whole     *)
(*    word and the padding word of BitFieldVec::new_unaligned.             *)
(***************************************************************************)
LinRegime(logic, n) == IF logic = "noshards" THEN n <= 100000 ELSE n <= 800000

SegCap(lin, m) ==
    IF lin
    THEN CASE m < 11 -> 2 [] m >= 11 /\ m < 35 -> 4 [] m >= 35 /\ m < 111 -> 8
           [] m >= 111 /\ m < 359 -> 16 [] m >= 359 /\ m < 1163 -> 32
           [] m >= 1163 /\ m < 3772 -> 64 [] m >= 3772 /\ m < 12232 -> 128
           [] m >= 12232 /\ m < 39670 -> 256 [] m >= 39670 -> 512
    ELSE CASE m < 124122 -> 2048 [] m >= 124122 /\ m < 413300 -> 4096
           [] m >= 413300 /\ m < 1376000 -> 8192 [] m >= 1376000 /\ m < 4580000 -> 16384
           [] m >= 4580000 -> 32768

FixedWords == 14

\* cells admitted for n keys in `shards` shards
Mwhc(logic) == logic \in {"mwhc", "mwhcnoshards"}
CellBound(logic, n, shards) ==
    IF Mwhc(logic)
    THEN \* MWHC (a feature of the crate): documented at 23% for every size ("24% with
         \* eps = 0.01"): every shard has 3 * ceil(1.23 m / 3) cells for the largest shard
         \* m <= 1.01 n / shards, rounded to a multiple of 3 * 128 when sharded
         LET perm == IF shards = 1 THEN 1230 ELSE 1243
             doc  == IF n <= 1000000 THEN CeilDivV(perm * n, 1000) ELSE perm * (n \div 1000 + 1)
         IN  doc + shards * (IF shards = 1 THEN 3 ELSE 3 * 128)
    ELSE
    LET lin  == LinRegime(logic, n)
        m    == IF shards = 1 THEN n ELSE CeilDivV(101 * CeilDivV(n, shards), 100)
        seg  == SegCap(lin, m)
        perm == IF n >= 100000 THEN 1135 ELSE 1230
        doc  == IF n <= 1000000 THEN CeilDivV(perm * n, 1000) ELSE perm * (n \div 1000 + 1)
    IN  MaxOf(3 * seg * shards, doc + seg * shards)

\* the same with the 23% that the property states for every size (fuse logics)
CellBound23(logic, n, shards) ==
    IF Mwhc(logic) THEN CellBound(logic, n, shards)
    ELSE
    LET lin  == LinRegime(logic, n)
        m    == IF shards = 1 THEN n ELSE CeilDivV(101 * CeilDivV(n, shards), 100)
        seg  == SegCap(lin, m)
        doc  == IF n <= 1000000 THEN CeilDivV(1230 * n, 1000) ELSE 1230 * (n \div 1000 + 1)
    IN  MaxOf(3 * seg * shards, doc + seg * shards)

MemBoundBits(b, shards) == CellBound(b.logic, b.n, shards) * ValWidth(b) + FixedWords * 64
\* beyond this, a structure is not even within the bound stated for small key sets
\* (reason "space-gross": the recorded finding F-noshards-space, 1.188 n b at most, stays below it)
MemBoundBits23(b, shards) == CellBound23(b.logic, b.n, shards) * ValWidth(b) + FixedWords * 64

(***************************************************************************)
(* B. The build loop                                                       *)
(*                                                                         *)
(* Configuration c (constant during a build): n, dups, checkDups, filter,  *)
(* hint (<<>> or <<h>>), vn (<<>> or <<k>>), faults (set of records        *)
(* [src, kind, pass, idx]: kind "read" = the source returns an error at    *)
(* position idx of pass `pass` (passes count from 0; position n of the     *)
(* key source is the end-of-stream read); kind "rewind" = rewind number    *)
(* `pass` (the one that starts pass `pass` >= 1) fails).                   *)
(***************************************************************************)
ReadFaults(c, p)   == {f \in c.faults : f.kind = "read" /\ f.pass = p
                                         /\ (IF f.src = "key" THEN f.idx <= c.n
                                             ELSE (~c.filter /\ f.idx < c.n))}
RewindFaults(c, k) == {f \in c.faults : f.kind = "rewind" /\ f.pass = k
                                         /\ (f.src = "key" \/ ~c.filter)}

\* position of the first fault of pass p (n + 1 if none)
FirstFaultPos(c, p) ==
    LET S == {f.idx : f \in ReadFaults(c, p)}
    IN  IF S = {} THEN c.n + 1 ELSE CHOOSE x \in S : \A y \in S : x <= y

\* the value source runs dry at position vn (functions only)
DryPos(c) == IF ~c.filter /\ c.vn # <<>> /\ c.vn[1] < c.n THEN c.vn[1] ELSE c.n + 1

\* outcome of reading pass p: "complete", "io" (with the set of admissible
\* faults: the property does not say which of the two sources is read first
\* at a position) or "dry" (out of domain: the code panics)
PassOutcome(c, p) ==
    LET fp == FirstFaultPos(c, p)
        dp == DryPos(c)
        at == {f \in ReadFaults(c, p) : f.idx = fp}
    IN  IF fp > c.n /\ dp > c.n THEN [kind |-> "complete", faults |-> {}]
        ELSE IF fp <= dp /\ (fp < dp \/ \E f \in at : f.src = "key")
             THEN [kind |-> "io", faults |-> IF fp < dp THEN at ELSE {f \in at : f.src = "key"}]
        ELSE [kind |-> "dry", faults |-> {}]

FaultId(f) == IF f.kind = "rewind" THEN <<f.src, "rewind", f.pass>> ELSE <<f.src, f.pass, f.idx>>

(***************************************************************************)
(* State of the loop.  pc:                                                 *)
(*  "init" -start-> "loop" -attempt-> "read" -keys-> "k1" -edge_bits->     *)
(*  "k2" -store_bits-> "k3" -max_shard-> "k4" -num_shards-> "k5"           *)
(*  -num_vertices-> "solve" -ok-> "done"                                   *)
(*                          -dup_sig / dup_local / max_shard_too_big /     *)
(*                           unsolvable-> "cls" (-fail_*-> "done")         *)
(*                           -rewind-> "loop" ...                          *)
(* (max_shard_too_big may also come directly after max_shard: the check    *)
(* does not depend on the graph set-up).                                   *)
(***************************************************************************)
InitLoop ==
    [pc |-> "init", pass |-> 0, attempts |-> 0, dupCount |-> 0, localDupCount |-> 0,
     dupAttempts |-> 0, transient |-> 0, bucketBits |-> 0, numKeys |-> 0,
     edgeBits |-> 0, storeBits |-> 0, maxShard |-> 0, numShards |-> 0, numVertices |-> 0,
     firstBits |-> <<>>, cls |-> "", result |-> "none", bad |-> ""]

Reject(s, why) == [s EXCEPT !.pc = "rejected", !.bad = why]

\* Attempts of one build that may end in a transient failure when the keys hold
\* a duplicate that is being looked for.  A correct build fails transiently with
\* a probability well below 1/2 per attempt (unsolvable system, a shard more
\* than 1% above the average) and meets a duplicate at most four times, so
\* twenty such attempts do not happen; a build that keeps retrying because the
\* duplicate itself causes the transient failure exceeds it at once.
TransientCap == 20

\* deterministic acceptor: the state after hook event e = <<kind, value>>
Step(s, c, e) ==
    LET k == e[1]
        v == e[2]
    IN
    CASE s.pc = "init" ->
           IF k = "start" THEN [s EXCEPT !.pc = "loop", !.bucketBits = v]
           ELSE Reject(s, "first-event")
      [] s.pc = "loop" ->
           IF k # "attempt" THEN Reject(s, "attempt-expected")
           ELSE IF v # s.dupCount THEN Reject(s, "dup-count")
           ELSE [s EXCEPT !.pc = "read", !.attempts = @ + 1]
      [] s.pc = "read" ->
           IF k # "keys" THEN Reject(s, "keys-expected")
           ELSE IF PassOutcome(c, s.pass).kind # "complete" THEN Reject(s, "fault-not-surfaced")
           ELSE IF v # c.n THEN Reject(s, "num-keys")
           ELSE [s EXCEPT !.pc = "k1", !.numKeys = v]
      [] s.pc = "k1" ->
           IF k # "edge_bits" THEN Reject(s, "edge-bits-expected")
           ELSE IF s.firstBits # <<>> /\ s.firstBits[1] # v THEN Reject(s, "edge-bits-change")
           ELSE [s EXCEPT !.pc = "k2", !.edgeBits = v, !.firstBits = <<v>>]
      [] s.pc = "k2" ->
           IF k # "store_bits" THEN Reject(s, "store-bits-expected")
           ELSE [s EXCEPT !.pc = "k3", !.storeBits = v]
      [] s.pc = "k3" ->
           IF k # "max_shard" THEN Reject(s, "max-shard-expected")
           ELSE IF v > c.n \/ v * Pow2(MinOf(s.storeBits, 10)) < c.n THEN Reject(s, "max-shard-value")
           ELSE [s EXCEPT !.pc = "k4", !.maxShard = v]
      [] s.pc = "k4" ->
           IF k = "max_shard_too_big"
           THEN [s EXCEPT !.pc = "cls", !.cls = k, !.transient = @ + 1]
           ELSE IF k # "num_shards" THEN Reject(s, "num-shards-expected")
           ELSE IF v # Pow2(MinOf(s.edgeBits, 20)) THEN Reject(s, "num-shards-value")
           ELSE [s EXCEPT !.pc = "k5", !.numShards = v]
      [] s.pc = "k5" ->
           IF k # "num_vertices" THEN Reject(s, "num-vertices-expected")
           ELSE [s EXCEPT !.pc = "solve", !.numVertices = v]
      [] s.pc = "solve" ->
           CASE k = "ok" ->
                  IF c.dups /\ c.checkDups THEN Reject(s, "ok-with-duplicates")
                  ELSE [s EXCEPT !.pc = "done", !.result = "ok"]
             [] k = "dup_sig" ->
                  IF ~(c.dups /\ c.checkDups) THEN Reject(s, "spurious-duplicate")
                  ELSE IF v # s.dupCount THEN Reject(s, "dup-count")
                  ELSE [s EXCEPT !.pc = "cls", !.cls = k, !.dupAttempts = @ + 1]
             [] k = "dup_local" ->
                  \* only possible beyond 2^33 keys
                  Reject(s, "duplicate-local-signature")
             [] k = "max_shard_too_big" ->
                  [s EXCEPT !.pc = "cls", !.cls = k, !.transient = @ + 1]
             [] k = "unsolvable" ->
                  [s EXCEPT !.pc = "cls", !.cls = k, !.transient = @ + 1]
             [] OTHER -> Reject(s, "solve-outcome-expected")
      [] s.pc = "cls" ->
           CASE k = "fail_dup" ->
                  IF s.cls = "dup_sig" /\ s.dupCount >= 3
                  THEN [s EXCEPT !.pc = "done", !.result = "DuplicateKey"]
                  ELSE Reject(s, "fail-dup-early")
             [] k = "rewind" ->
                  IF s.cls = "dup_sig" /\ s.dupCount >= 3 THEN Reject(s, "dup-bound")
                  \* "an error after a bounded number of attempts": with duplicates and
                  \* checking, attempts that end without finding one (unsolvable, largest
                  \* shard too big) must stay exceptions, not become the rule
                  ELSE IF c.dups /\ c.checkDups /\ s.transient > TransientCap THEN Reject(s, "retry-bound")
                  ELSE [s EXCEPT !.pc = "rew",
                                 !.dupCount = IF s.cls = "dup_sig" THEN @ + 1 ELSE @]
             [] OTHER -> Reject(s, "rewind-expected")
      [] s.pc = "rew" ->
           \* the rewind that starts pass s.pass + 1 succeeded iff the next event is "attempt"
           IF k # "attempt" THEN Reject(s, "attempt-expected")
           ELSE IF RewindFaults(c, s.pass + 1) # {} THEN Reject(s, "rewind-fault-not-surfaced")
           ELSE IF v # s.dupCount THEN Reject(s, "dup-count")
           ELSE [s EXCEPT !.pc = "read", !.pass = @ + 1, !.attempts = @ + 1]
      [] OTHER -> Reject(s, "event-after-end")

\* What the call must return when the events stop in state s:
\* [kind |-> "ok" | "err" | "panic" | "impossible", err, faults]
Expected(s, c) ==
    CASE s.pc = "done" /\ s.result = "ok" -> [kind |-> "ok", err |-> "", faults |-> {}]
      [] s.pc = "done" /\ s.result # "ok" -> [kind |-> "err", err |-> s.result, faults |-> {}]
      [] s.pc = "read" ->
           LET o == PassOutcome(c, s.pass) IN
           IF o.kind = "io" THEN [kind |-> "err", err |-> "io", faults |-> o.faults]
           ELSE IF o.kind = "dry" THEN [kind |-> "panic", err |-> "", faults |-> {}]
           ELSE [kind |-> "impossible", err |-> "stopped-reading", faults |-> {}]
      [] s.pc = "rew" ->
           IF RewindFaults(c, s.pass + 1) # {}
           THEN [kind |-> "err", err |-> "io", faults |-> RewindFaults(c, s.pass + 1)]
           ELSE [kind |-> "impossible", err |-> "stopped-at-rewind", faults |-> {}]
      [] OTHER -> [kind |-> "impossible", err |-> "stopped-in-" \o s.pc, faults |-> {}]

(***************************************************************************)
(* Properties of the loop (invariants of MC_VBuild, and evaluated on the   *)
(* final state of every recorded build).                                   *)
(***************************************************************************)
\* a function is returned only when it was built over all the keys, with the
\* signature store sharded exactly as the edges are computed at query time
OkIsWhole(s, c) ==
    s.result = "ok" => /\ s.storeBits = s.edgeBits
                       /\ s.numKeys = c.n
                       /\ ~(c.dups /\ c.checkDups)

\* no injected fault that the run has reached is ever passed over: every pass
\* that was read to its end and every rewind that was performed had no fault
ErrorsSurface(s, c) ==
    s.pc # "rejected" =>
        \A p \in 0 .. s.pass :
            /\ (p < s.pass \/ s.pc \notin {"init", "loop", "read"}) => ReadFaults(c, p) = {}
            /\ (p >= 1) => RewindFaults(c, p) = {}

\* duplicates with checking: never Ok, DuplicateKey after at most four
\* attempts that found a duplicate
DupBound(s, c) ==
    (c.dups /\ c.checkDups) =>
        /\ s.result # "ok"
        /\ s.dupAttempts <= 4
        /\ s.dupCount <= 3
        /\ (s.result = "DuplicateKey" => s.dupAttempts = 4)

\* the hint only chooses the number of buckets: nothing that reaches the
\* returned function depends on it
HintIrrelevant(s, c, bitsOfN) ==
    s.result = "ok" => s.storeBits = bitsOfN /\ s.edgeBits = bitsOfN /\ s.numKeys = c.n
=============================================================================
