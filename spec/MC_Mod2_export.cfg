SPECIFICATION MCSpec
CONSTANTS
  MaxV = 3
  MaxE = 3
  CBits = {0}
  Part = 4
  Export = TRUE
INVARIANTS Emit
CHECK_DEADLOCK FALSE
