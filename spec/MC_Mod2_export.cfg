SPECIFICATION MCSpec
CONSTANTS
  MaxV = 3
  MaxE = 3
  CBits = {0}
  Export = TRUE
INVARIANTS Emit
CHECK_DEADLOCK FALSE
