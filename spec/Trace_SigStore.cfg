SPECIFICATION TraceSpec
CONSTANT RB = 1024
INVARIANT TraceInv
POSTCONDITION TraceAccepted
CHECK_DEADLOCK FALSE
