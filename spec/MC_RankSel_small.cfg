SPECIFICATION MCSpec
CONSTANTS
  Export = FALSE
  MaxLen = 10
  Lens = {1}
  MaxRuns = 1
  PerVec = 1
  What = "rank"
INVARIANTS AbstractOK SpaceOK
CHECK_DEADLOCK FALSE
