SPECIFICATION MCSpec
CONSTANTS
  W = 4
  E16 = 2
  E32 = 3
  Capped = TRUE
  MaxWords = 3
  Ls = {0, 1, 2, 3}
  Ms = {0, 1, 2}
INVARIANTS DesignOK
CHECK_DEADLOCK FALSE
