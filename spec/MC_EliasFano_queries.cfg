SPECIFICATION MCSpec
CONSTANTS
  Mode = "queries"
  MaxN = 3
  Extra = 0
  MaxSN = 0
  MaxSU = 0
INVARIANTS StateOK Emit
CHECK_DEADLOCK FALSE
