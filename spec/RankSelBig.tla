----------------------------- MODULE RankSelBig -----------------------------
(***************************************************************************)
(* Rank / select over bit vectors longer than 2^32 bits (properties C01,   *)
(* C02 where the "ranksel" family cannot go: its positions are TLC         *)
(* integers).  The abstract vector is its length and a short sequence of   *)
(* disjoint, increasing runs of ones [s, e), all as base-2^15 limb         *)
(* sequences (Wide.tla): sparse vectors are runs of length one, dense      *)
(* ones a few long runs.                                                   *)
(*                                                                         *)
(*   rank(p)        = sum over runs of |[s, e) /\ [0, min(p, len))|        *)
(*   rank_zero(p)   = p - rank(p)                  (trait definition)      *)
(*   select(r)      = s_k + (r - ones before run k) for the run k that     *)
(*                    holds the one of rank r; None if r >= m              *)
(*   select_zero(r) = the same over the complementary runs                 *)
(***************************************************************************)
EXTENDS Wide, Naturals, Sequences, FiniteSets

VARIABLES blen,     \* length (wide)
          runs,     \* sequence of <<s, e>> (wide), s < e, e_k < s_{k+1}, e <= blen
          built     \* the structure exists (its constructor returned)
bigvars == <<blen, runs, built>>

K == Len(runs)
WellFormedRuns(rs, n) ==
    /\ \A k \in 1 .. Len(rs) : WLess(rs[k][1], rs[k][2]) /\ WLeq(rs[k][2], n)
    /\ \A k \in 1 .. (Len(rs) - 1) : WLess(rs[k][2], rs[k + 1][1])
WellFormed == WellFormedRuns(runs, blen)

WMin(a, b) == IF WLess(a, b) THEN a ELSE b
WMax(a, b) == IF WLess(a, b) THEN b ELSE a
\* |[s, e) /\ [0, q)|
Below(run, q) == IF WLeq(q, run[1]) THEN WZero ELSE WSub(WMin(q, run[2]), run[1])

RECURSIVE SumBelow(_, _, _)
SumBelow(rs, k, q) == IF k = 0 THEN WZero ELSE WAdd(SumBelow(rs, k - 1, q), Below(rs[k], q))
RankIn(rs, n, p) == SumBelow(rs, Len(rs), WMin(p, n))
CountOf(rs, n)   == RankIn(rs, n, n)

\* r-th element (wide r) of the union of the runs, << >> if there is none
RECURSIVE SelIn(_, _, _)
SelIn(rs, k, r) ==
    IF k > Len(rs) THEN <<>>
    ELSE LET sz == WSub(rs[k][2], rs[k][1]) IN
         IF WLess(r, sz) THEN <<WAdd(rs[k][1], r)>> ELSE SelIn(rs, k + 1, WSub(r, sz))

\* the complementary runs (zeros) of a well-formed run list
Gaps(rs, n) ==
    LET starts == <<WZero>> \o [k \in 1 .. Len(rs) |-> rs[k][2]]
        ends   == [k \in 1 .. Len(rs) |-> rs[k][1]] \o <<n>>
        all    == [k \in 1 .. (Len(rs) + 1) |-> <<starts[k], ends[k]>>]
    IN  SelectSeq(all, LAMBDA g : WLess(g[1], g[2]))

Rank(p)       == RankIn(runs, blen, p)
NumOnes       == CountOf(runs, blen)
NumZeros      == WSub(blen, NumOnes)
Select(r)     == SelIn(runs, 1, r)
SelectZero(r) == SelIn(Gaps(runs, blen), 1, r)
BitAt(p)      == \E k \in 1 .. K : WLeq(runs[k][1], p) /\ WLess(p, runs[k][2])

\* the first reason for which a recorded call differs from what the vector admits
\* ("na": the stack does not offer the operation -- a compile-time fact)
Why(ev) ==
    LET o == ev.op IN
    IF ev.out = "na" THEN "ok"
    ELSE IF ~built THEN "no-structure"
    ELSE CASE
       o = "len"        -> IF ev.out # "ret" THEN "outcome" ELSE IF ev.res # blen THEN "len" ELSE "ok"
    [] o \in {"num_ones", "count_ones"} ->
                           IF ev.out # "ret" THEN "outcome" ELSE IF ev.res # NumOnes THEN "num-ones" ELSE "ok"
    [] o = "num_zeros"  -> IF ev.out # "ret" THEN "outcome" ELSE IF ev.res # NumZeros THEN "num-zeros" ELSE "ok"
    [] o = "index"      -> IF WLess(ev.p, blen)
                           THEN (IF ev.out # "ret" THEN "outcome" ELSE IF ev.res # BitAt(ev.p) THEN "bit" ELSE "ok")
                           ELSE (IF ev.out # "panic" THEN "outcome" ELSE "ok")
    [] o = "rank"       -> IF ev.out # "ret" THEN "outcome"
                           ELSE IF ev.res # Rank(ev.p) THEN "rank" ELSE "ok"
    [] o = "rank_zero"  -> IF ev.out # "ret" THEN "outcome"
                           ELSE IF ev.res # WSub(ev.p, Rank(ev.p)) THEN "rank-zero" ELSE "ok"
    [] o = "select"     -> IF ev.out # "ret" THEN "outcome"
                           ELSE IF ev.res # Select(ev.r) THEN "select" ELSE "ok"
    [] o = "select_zero" -> IF ev.out # "ret" THEN "outcome"
                           ELSE IF ev.res # SelectZero(ev.r) THEN "select-zero" ELSE "ok"
    [] o = "mem_size"   -> IF ev.out # "ret" THEN "outcome" ELSE "ok"
    [] OTHER -> "unknown-op"

BigInit == blen = <<>> /\ runs = <<>> /\ built = FALSE

(***************************************************************************)
(* Sanity of the definitions on small vectors (checked by TLC in           *)
(* MC_RankSelBig): rank, select and select_zero over runs agree with       *)
(* counting on the set of one positions.                                   *)
(***************************************************************************)
RunsOfSet(S, n) ==      \* maximal runs of a set of positions, as wide pairs
    LET st == {p \in S : (p - 1) \notin S}
        nth(T, i) == CHOOSE x \in T : Cardinality({y \in T : y < x}) = i - 1
        endOf(s) == CHOOSE e \in s + 1 .. n : (\A q \in s .. (e - 1) : q \in S) /\ e \notin S
    IN  [i \in 1 .. Cardinality(st) |-> <<WOfNat(nth(st, i)), WOfNat(endOf(nth(st, i)))>>]

SmallDefsOK(n, S) ==
    LET rs == RunsOfSet(S, n)
        zs == (0 .. (n - 1)) \ S
        nth(T, i) == CHOOSE x \in T : Cardinality({y \in T : y < x}) = i
    IN  /\ WellFormedRuns(rs, WOfNat(n))
        /\ \A p \in 0 .. (n + 1) : RankIn(rs, WOfNat(n), WOfNat(p)) = WOfNat(Cardinality({x \in S : x < p}))
        /\ \A r \in 0 .. Cardinality(S) :
              SelIn(rs, 1, WOfNat(r)) = (IF r < Cardinality(S) THEN <<WOfNat(nth(S, r))>> ELSE <<>>)
        /\ \A r \in 0 .. Cardinality(zs) :
              SelIn(Gaps(rs, WOfNat(n)), 1, WOfNat(r)) = (IF r < Cardinality(zs) THEN <<WOfNat(nth(zs, r))>> ELSE <<>>)
=============================================================================
