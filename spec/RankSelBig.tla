----------------------------- MODULE RankSelBig -----------------------------
(***************************************************************************)
(* Rank / select over bit vectors longer than 2^32 bits (properties C01,   *)
(* C02 where the "ranksel" family cannot go: its positions are TLC         *)
(* integers).  The abstract vector is its length and the strictly          *)
(* increasing sequence of the positions of its ones, as base-2^15 limb     *)
(* sequences (Wide.tla); the number of ones is small, so ranks of ones are *)
(* plain naturals while positions and ranks of zeros are wide.             *)
(*                                                                         *)
(*   rank(p)        = |{i : ones[i] < min(p, len)}|                        *)
(*   rank_zero(p)   = p - rank(p)                  (trait definition)      *)
(*   select(r)      = ones[r + 1] if r < m, else None                      *)
(*   select_zero(r) = r + |{j : ones[j] - (j - 1) <= r}| if r < len - m    *)
(*                    (the zeros before the j-th one are ones[j] - (j-1)), *)
(*                    else None                                            *)
(***************************************************************************)
EXTENDS Wide, Naturals, Sequences, FiniteSets

VARIABLES blen,     \* length (wide)
          ones,     \* sequence of wide positions, strictly increasing, < blen
          built     \* the structure exists (its constructor returned)
bigvars == <<blen, ones, built>>

M == Len(ones)
WellFormed == /\ \A i \in 1 .. M : WLess(ones[i], blen)
              /\ \A i \in 1 .. (M - 1) : WLess(ones[i], ones[i + 1])

WMin(a, b) == IF WLess(a, b) THEN a ELSE b
RankN(p)     == Cardinality({i \in 1 .. M : WLess(ones[i], WMin(p, blen))})
NumZerosW    == WSub(blen, WOfNat(M))
\* zeros strictly before the i-th one (1-based)
ZerosBefore(i) == WSub(ones[i], WOfNat(i - 1))
SelectZeroW(r) == WAdd(r, WOfNat(Cardinality({j \in 1 .. M : WLeq(ZerosBefore(j), r)})))
BitAt(p) == \E i \in 1 .. M : ones[i] = p

\* the first reason for which a recorded call differs from what the vector admits
\* ("na": the stack does not offer the operation -- a compile-time fact)
Why(ev) ==
    LET o == ev.op IN
    IF ev.out = "na" THEN "ok"
    ELSE IF ~built THEN "no-structure"
    ELSE CASE
       o = "len"        -> IF ev.out # "ret" THEN "outcome" ELSE IF ev.res # blen THEN "len" ELSE "ok"
    [] o \in {"num_ones", "count_ones"} ->
                           IF ev.out # "ret" THEN "outcome" ELSE IF ev.res # WOfNat(M) THEN "num-ones" ELSE "ok"
    [] o = "num_zeros"  -> IF ev.out # "ret" THEN "outcome" ELSE IF ev.res # NumZerosW THEN "num-zeros" ELSE "ok"
    [] o = "index"      -> IF WLess(ev.p, blen)
                           THEN (IF ev.out # "ret" THEN "outcome" ELSE IF ev.res # BitAt(ev.p) THEN "bit" ELSE "ok")
                           ELSE (IF ev.out # "panic" THEN "outcome" ELSE "ok")
    [] o = "rank"       -> IF ev.out # "ret" THEN "outcome"
                           ELSE IF ev.res # WOfNat(RankN(ev.p)) THEN "rank" ELSE "ok"
    [] o = "rank_zero"  -> IF ev.out # "ret" THEN "outcome"
                           ELSE IF ev.res # WSub(ev.p, WOfNat(RankN(ev.p))) THEN "rank-zero" ELSE "ok"
    [] o = "select"     -> IF ev.out # "ret" THEN "outcome"
                           ELSE IF WIsSmall(ev.r) /\ WToNat(ev.r) < M
                                THEN (IF ev.res # <<ones[WToNat(ev.r) + 1]>> THEN "select" ELSE "ok")
                                ELSE (IF ev.res # <<>> THEN "select-past-count" ELSE "ok")
    [] o = "select_zero" -> IF ev.out # "ret" THEN "outcome"
                           ELSE IF WLess(ev.r, NumZerosW)
                                THEN (IF ev.res # <<SelectZeroW(ev.r)>> THEN "select-zero" ELSE "ok")
                                ELSE (IF ev.res # <<>> THEN "select-zero-past-count" ELSE "ok")
    [] o = "mem_size"   -> IF ev.out # "ret" THEN "outcome" ELSE "ok"
    [] OTHER -> "unknown-op"

BigInit == blen = <<>> /\ ones = <<>> /\ built = FALSE

(***************************************************************************)
(* Sanity of the definitions on small vectors (checked by TLC in           *)
(* MC_RankSelBig): select_zero and rank_zero agree with counting.          *)
(***************************************************************************)
SmallDefsOK(n, S) ==      \* S: set of one positions < n (plain naturals)
    LET os == [i \in 1 .. Cardinality(S) |-> WOfNat(CHOOSE x \in S : Cardinality({y \in S : y < x}) = i - 1)]
        zs == {p \in 0 .. (n - 1) : p \notin S}
    IN  \A r \in 0 .. (Cardinality(zs) - 1) :
          LET z == CHOOSE p \in zs : Cardinality({q \in zs : q < p}) = r
              cnt == Cardinality({j \in 1 .. Len(os) : WLeq(WSub(os[j], WOfNat(j - 1)), WOfNat(r))})
          IN  z = r + cnt
=============================================================================
