\* one-letter alphabet, strings up to 7 bytes: rear lengths reach the marker
\* form of the scaled code (>= 6)
SPECIFICATION MCSpec
CONSTANTS
  BITS = 2
  Fixed = TRUE
  Ks = {1, 2, 3}
  Alphabet = {1}
  MaxLen = 7
  MaxN = 3
  Over = 3
  CodeVals = {0}
  Export = FALSE
INVARIANTS InvType InvSorted InvGet InvIter InvIndex InvSize
CHECK_DEADLOCK FALSE
