----------------------------- MODULE EliasFano -----------------------------
(***************************************************************************)
(* sux::dict::elias_fano as a monotone sequence (properties C03, C04 and   *)
(* the Elias-Fano parts of C11, C12, C13, C15).                            *)
(*                                                                         *)
(* Abstract state: the declared length  n , the declared bound  u , and    *)
(* the sequence  X  of values accepted so far (builder) / stored (built    *)
(* structure).  Values,  u  and queries range over all of usize and are    *)
(* base-2^15 limb sequences (module Wide); indices are plain integers.     *)
(*                                                                         *)
(* Every public operation is described by  Eff(op, S, X) : the admissible  *)
(* outcome, the next control state and how  X  changes, and by             *)
(* ResultOK(ev, S, X) : the predicate an admissible result satisfies.      *)
(* Where the property leaves freedom the predicate admits all of it: any   *)
(* index holding the value for index_of / succ / pred on repeated values.  *)
(* The number of lower bits  l  is NOT part of this specification (the     *)
(* code computes it; EFDesign shows that every  l  is correct); only the   *)
(* space bound of C11 constrains it.                                       *)
(*                                                                         *)
(* S = [form, n, u, kind, cs, full]                                        *)
(*   form  "none" | "builder" | "cbuilder" | "ef"                          *)
(*   cs    concurrent builder: the <<index, value>> pairs set so far       *)
(*   full  concurrent builder: X already holds all n values (cfill)        *)
(***************************************************************************)
EXTENDS Naturals, Sequences, FiniteSets, Wide

\* ------------------------------------------------------------------ kinds
\* selection structures attached to the high bits; the class says which
\* traits the resulting type implements
SeqKinds     == {"seq", "seq_c", "seq_c0", "seq_adapt", "seq_inv", "seq_sel9", "seq_small", "seq_small3"}
DictKinds    == {"dict", "dict_c", "dict_adapt", "dict_small"}
SeqDictKinds == {"seqdict", "seqdict_c", "seqdict_adapt", "seqdict_inv", "seqdict_sel9", "seqdict_small",
                 "seqdict_map", "seqdict_map2"}
AllKinds     == {"plain"} \cup SeqKinds \cup DictKinds \cup SeqDictKinds
\* SelectSmall / SelectZeroSmall implement the selection traits for boxed
\* inventories only: their eps-copy / mmap forms cannot be queried
FullOnlyKinds == {"seq_small", "seq_small3", "dict_small", "seqdict_small"}
HasSeq(k)  == k \in SeqKinds \cup SeqDictKinds
HasDict(k) == k \in DictKinds \cup SeqDictKinds
HasBoth(k) == k \in SeqDictKinds

\* ------------------------------------------------------------------ sequences of wide values
EFLast(X)  == IF X = <<>> THEN WZero ELSE X[Len(X)]
EFMonotone(X) == \A i \in 1 .. (Len(X) - 1) : WLeq(X[i], X[i + 1])
EFBounded(X, u) == X = <<>> \/ WLeq(X[Len(X)], u)      \* for monotone X

(***************************************************************************)
(* Order-theoretic definitions (the property text, literally).  Each gives *)
(* the SET of admissible results; indices are 0-based as in the code.      *)
(***************************************************************************)
EFOccurs(X, q) == {i \in 1 .. Len(X) : X[i] = q}

IndexOfDef(X, q) ==
    IF EFOccurs(X, q) = {} THEN {<<>>} ELSE {<<i - 1>> : i \in EFOccurs(X, q)}

\* candidates in the stated relation to q, then the extreme ones among them
SuccDef(X, q, strict) ==
    LET C == {i \in 1 .. Len(X) : IF strict THEN WLess(q, X[i]) ELSE WLeq(q, X[i])}
    IN  IF C = {} THEN {<<>>}
        ELSE {<<[i |-> i - 1, v |-> X[i]]>> : i \in {c \in C : \A d \in C : WLeq(X[c], X[d])}}

PredDef(X, q, strict) ==
    LET C == {i \in 1 .. Len(X) : IF strict THEN WLess(X[i], q) ELSE WLeq(X[i], q)}
    IN  IF C = {} THEN {<<>>}
        ELSE {<<[i |-> i - 1, v |-> X[i]]>> : i \in {c \in C : \A d \in C : WLeq(X[d], X[c])}}

(***************************************************************************)
(* The same by binary search (what trace validation evaluates: O(log n)    *)
(* per query on sequences of 10^5 elements).  MC_EliasFano checks on every *)
(* small sequence and query that these accept exactly the sets above.      *)
(***************************************************************************)
RECURSIVE EFLowerRec(_, _, _, _)
\* number of elements < q   (elements [0,lo) are < q, elements [hi,n) are >= q)
EFLowerRec(X, q, lo, hi) ==
    IF lo >= hi THEN lo
    ELSE LET mid == (lo + hi) \div 2
         IN  IF WLess(X[mid + 1], q) THEN EFLowerRec(X, q, mid + 1, hi)
             ELSE EFLowerRec(X, q, lo, mid)
EFLower(X, q) == EFLowerRec(X, q, 0, Len(X))

RECURSIVE EFUpperRec(_, _, _, _)
\* number of elements <= q
EFUpperRec(X, q, lo, hi) ==
    IF lo >= hi THEN lo
    ELSE LET mid == (lo + hi) \div 2
         IN  IF WLeq(X[mid + 1], q) THEN EFUpperRec(X, q, mid + 1, hi)
             ELSE EFUpperRec(X, q, lo, mid)
EFUpper(X, q) == EFUpperRec(X, q, 0, Len(X))

\* r is <<>> or <<i>> with X[i] = q
IndexOfOK(X, q, r) ==
    LET k == EFLower(X, q)
        occurs == k < Len(X) /\ X[k + 1] = q
    IN  IF r = <<>> THEN ~occurs
        ELSE /\ Len(r) = 1 /\ occurs
             /\ r[1] \in Nat /\ r[1] < Len(X) /\ X[r[1] + 1] = q

\* r is <<>> or <<[i, v]>>; the extreme element is X[k+1] (0-based k)
PairOK(X, k, none, r) ==
    IF none THEN r = <<>>
    ELSE /\ r # <<>> /\ Len(r) = 1
         /\ r[1].i \in Nat /\ r[1].i < Len(X)
         /\ X[r[1].i + 1] = r[1].v
         /\ r[1].v = X[k + 1]

SuccOK(X, q, strict, r) ==
    LET k == IF strict THEN EFUpper(X, q) ELSE EFLower(X, q)
    IN  PairOK(X, k, k = Len(X), r)

PredOK(X, q, strict, r) ==
    LET k == IF strict THEN EFLower(X, q) ELSE EFUpper(X, q)
    IN  PairOK(X, k - 1, k = 0, r)

SuccExists(X, q, strict) == (IF strict THEN EFUpper(X, q) ELSE EFLower(X, q)) < Len(X)
PredExists(X, q, strict) == (IF strict THEN EFLower(X, q) ELSE EFUpper(X, q)) > 0

(***************************************************************************)
(* C11: an Elias-Fano sequence without selection indices takes at most     *)
(* n(2 + max(0, lg(u/n))) bits plus an additive constant.                  *)
(*                                                                         *)
(* Logarithms in fixed point with 8 fractional bits, on wide numbers.      *)
(* LgUp8(x) > 256 lg x  and  LgDown8(x) <= 256 lg x  (x >= 1): the 15-bit  *)
(* mantissa is squared eight times; all roundings go up (resp. down), so   *)
(* the extracted bits are >= (resp. <=) the true ones, and one unit is     *)
(* added for the truncated rest.  Both are within 3/256 of the truth.      *)
(***************************************************************************)
RECURSIVE EFBitLen(_)
EFBitLen(k) == IF k = 0 THEN 0 ELSE 1 + EFBitLen(k \div 2)
RECURSIVE EFPow2(_)
EFPow2(k) == IF k = 0 THEN 1 ELSE 2 * EFPow2(k - 1)

\* bit length of a wide number (0 for 0)
WBitLen(x) == IF x = <<>> THEN 0 ELSE 15 * (Len(x) - 1) + EFBitLen(x[Len(x)])

\* [k, m, exact]: x = (m / 2^14) * 2^k rounded down to 15 significant bits,
\* 2^14 <= m < 2^15; exact = no nonzero bit was dropped
EFMant(x) ==
    LET n   == Len(x)
        top == x[n]
        bl  == EFBitLen(top)                       \* 1..15
        nxt == IF n >= 2 THEN x[n - 1] ELSE 0
        t   == top * WBase + nxt                   \* bl + 15 significant bits
        m   == t \div EFPow2(bl)                    \* 15 significant bits
        k   == 15 * (n - 1) + bl - 1
        dropped == (t % EFPow2(bl) # 0) \/ (\E j \in 1 .. (n - 2) : x[j] # 0)
    IN  [k |-> k, m |-> m, exact |-> ~dropped]

\* eight squarings; up = round everything up
RECURSIVE EFLgBits(_, _, _, _)
EFLgBits(m, up, steps, acc) ==
    IF steps = 0 THEN acc
    ELSE LET sq == m * m                              \* < 2^30 (m <= 2^15)
             m2 == IF up THEN (sq + 16383) \div 16384 ELSE sq \div 16384
         IN  IF m2 >= 32768
             THEN EFLgBits(IF up THEN (m2 + 1) \div 2 ELSE m2 \div 2, up, steps - 1, 2 * acc + 1)
             ELSE EFLgBits(m2, up, steps - 1, 2 * acc)

LgDown8(x) == LET a == EFMant(x) IN 256 * a.k + EFLgBits(a.m, FALSE, 8, 0)
LgUp8(x) ==
    LET a  == EFMant(x)
        m  == IF a.exact THEN a.m ELSE a.m + 1       \* may reach 2^15 = next power of two
    IN  IF m >= 32768 THEN 256 * (a.k + 1) + 1
        ELSE 256 * a.k + EFLgBits(m, TRUE, 8, 0) + 1

\* n (2 + max(0, lg(u/n))) in units of 1/256 bit, as a wide number (n plain)
EFBound256(n, u) ==
    IF n = 0 THEN WZero
    ELSE LET d == IF u = <<>> THEN 0
                  ELSE LET a == LgUp8(u)
                           b == LgDown8(WOfNat(n))
                       IN  IF a > b THEN a - b ELSE 0
         IN  WMulSmall(WOfNat(n), 512 + d)            \* 512 + d <= 512 + 64*256 + 1 < 2^15

(***************************************************************************)
(* The additive constant, from the code's allocation granularity:          *)
(*  - 11 words of fields: n, u, l; the lower-bits BitFieldVec (boxed slice *)
(*    = pointer + length, bit_width, mask, len); the upper-bits BitVec     *)
(*    (boxed slice = pointer + length, len);                               *)
(*  - 2 words of rounding: each of the two arrays is a whole number of     *)
(*    words (the lower-bits array never has fewer than one word), and the  *)
(*    upper-bits array has n + floor(u / 2^l) + 1 bits, one more than the  *)
(*    n (1 + 2^frac) <= n (2 + frac) the bound accounts for.               *)
(***************************************************************************)
EFOverheadBits == 11 * 64 + 2 * 64

\* bytes reported by mem_size(SizeFlags::default()) are within the bound
MemSizeOK(bytes, n, u) ==
    WLeq(WMulSmall(WOfNat(bytes), 8 * 256),
         WAdd(EFBound256(n, u), WOfNat(EFOverheadBits * 256)))

(***************************************************************************)
(* Operations.                                                             *)
(***************************************************************************)
EFState(f, n, u, k, cs, full) == [form |-> f, n |-> n, u |-> u, kind |-> k, cs |-> cs, full |-> full]
EFNone == EFState("none", 0, WZero, "", <<>>, FALSE)

QueryOps   == {"len", "iter", "into_iter", "mem_size", "get", "iter_from", "index_of", "contains",
               "succ", "succ_strict", "pred", "pred_strict", "succ_unchecked", "pred_unchecked", "reload"}

\* xu: how the sequence changes: <<"same">> | <<"op">> (becomes op.xs) |
\*     <<"app", x>> | <<"val", seq>>
EFR(outs, st, xu) == [outs |-> outs, st |-> st, xu |-> xu]
EFNa(S)       == EFR({"na"}, S, <<"same">>)
EFPanic(S)    == EFR({"panic"}, S, <<"same">>)           \* a panic never changes anything
EFKeep(S)     == EFR({"ret"}, S, <<"same">>)

\* the outcome logged with an event (trace validation); "ret" when the
\* operation record comes from a bounded model
EFOutcome(op) == IF "out" \in DOMAIN op THEN op.out ELSE "ret"

\* a push is accepted iff there is room, the value is within the bound and
\* not smaller than the last accepted one
PushOK(S, X, x) == Len(X) < S.n /\ WLeq(x, S.u) /\ WLeq(EFLast(X), x)

\* a whole batch is accepted iff pushing its elements one by one would be
ExtendOK(S, X, ys) ==
    \/ ys = <<>>
    \/ /\ Len(X) + Len(ys) <= S.n
       /\ EFMonotone(ys)
       /\ WLeq(EFLast(X), ys[1])
       /\ WLeq(ys[Len(ys)], S.u)

\* the pairs set so far in a concurrent builder, as a partial map
CsIdx(cs) == {cs[j][1] : j \in 1 .. Len(cs)}
CsVal(cs, i) == cs[CHOOSE j \in 1 .. Len(cs) : cs[j][1] = i][2]
CsComplete(S) == Len(S.cs) = S.n /\ CsIdx(S.cs) = 0 .. (S.n - 1)
CsSeq(S) == [i \in 1 .. S.n |-> CsVal(S.cs, i - 1)]

\* parts: the indices each thread sets, in order; together a partition of 0..n-1
PartitionOK(parts, n) ==
    LET all == UNION {{parts[t][j] : j \in 1 .. Len(parts[t])} : t \in 1 .. Len(parts)}
        cnt[t \in 0 .. Len(parts)] == IF t = 0 THEN 0 ELSE cnt[t - 1] + Len(parts[t])
    IN  all = 0 .. (n - 1) /\ cnt[Len(parts)] = n

\* operations on the built structure (S.form = "ef")
QEff(op, S, X) ==
    LET o == op.op IN
    CASE o \in {"len", "iter", "into_iter", "mem_size"} -> EFKeep(S)
      [] o = "get" ->
           IF ~HasSeq(S.kind) THEN EFNa(S)
           ELSE IF op.i < S.n THEN EFKeep(S) ELSE EFPanic(S)
      [] o = "iter_from" ->
           IF ~HasSeq(S.kind) THEN EFNa(S)
           ELSE IF op.k <= S.n THEN EFKeep(S) ELSE EFPanic(S)
      [] o \in {"index_of", "contains"} -> IF HasDict(S.kind) THEN EFKeep(S) ELSE EFNa(S)
      [] o \in {"succ", "succ_strict", "pred", "pred_strict"} ->
           IF HasBoth(S.kind) THEN EFKeep(S) ELSE EFNa(S)
      \* unchecked variants: only inside their documented precondition
      [] o = "succ_unchecked" ->
           IF HasDict(S.kind) /\ SuccExists(X, op.q, op.strict) THEN EFKeep(S) ELSE EFNa(S)
      [] o = "pred_unchecked" ->
           IF HasDict(S.kind) /\ PredExists(X, op.q, op.strict) THEN EFKeep(S) ELSE EFNa(S)
      [] o = "reload" ->
           IF op.mode \in {"full", "eps", "eps8", "mmap"} /\ (op.mode = "full" \/ S.kind \notin FullOnlyKinds)
           THEN EFKeep(S) ELSE EFNa(S)

Eff(op, S, X) ==
    LET o == op.op IN
    CASE o = "new"  -> EFR({"ret"}, EFState("builder", op.n, op.u, "", <<>>, FALSE), <<"val", <<>>>>)
      [] o = "cnew" -> EFR({"ret"}, EFState("cbuilder", op.n, op.u, "", <<>>, FALSE), <<"val", <<>>>>)
      [] o = "push" ->
           IF S.form # "builder" THEN EFNa(S)
           ELSE IF PushOK(S, X, op.x) THEN EFR({"ret"}, S, <<"app", op.x>>)
           ELSE EFPanic(S)
      [] o = "push_unchecked" ->       \* documented precondition = the acceptance rule of push
           IF S.form # "builder" THEN EFNa(S)
           ELSE IF PushOK(S, X, op.x) THEN EFR({"ret"}, S, <<"app", op.x>>)
           ELSE EFR({"bad-script"}, S, <<"same">>)
      [] o = "extend" ->
           IF S.form # "builder" THEN EFNa(S)
           ELSE IF ExtendOK(S, X, op.xs)
                THEN EFR({"ret"}, S, IF X = <<>> THEN <<"op">> ELSE <<"val", X \o op.xs>>)
                \* how much of a rejected batch is consumed is not specified:
                \* the builder is abandoned
                ELSE EFR({"panic"}, EFNone, <<"val", <<>>>>)
      [] o = "cset" ->
           \* inside the documented preconditions only: distinct indices < n, values <= u
           IF S.form = "cbuilder" /\ ~S.full /\ op.i < S.n /\ op.i \notin CsIdx(S.cs) /\ WLeq(op.x, S.u)
           THEN EFR({"ret"}, [S EXCEPT !.cs = Append(S.cs, <<op.i, op.x>>)], <<"same">>)
           ELSE EFNa(S)
      [] o = "cfill" ->
           IF /\ S.form = "cbuilder" /\ ~S.full /\ S.cs = <<>>
              /\ Len(op.xs) = S.n /\ EFMonotone(op.xs) /\ EFBounded(op.xs, S.u)
              /\ PartitionOK(op.parts, S.n)
           THEN EFR({"ret"}, [S EXCEPT !.full = TRUE], <<"op">>)
           ELSE EFNa(S)
      [] o = "build" ->
           IF op.kind \notin AllKinds THEN EFNa(S)
           ELSE IF S.form = "builder" /\ Len(X) = S.n
           THEN EFR({"ret"}, EFState("ef", S.n, S.u, op.kind, <<>>, FALSE), <<"same">>)
           ELSE IF S.form = "builder"
           \* values are missing: the call must not produce a structure that
           \* claims n values.  It panics (and the builder is gone), or it
           \* returns a structure holding exactly the values accepted so far.
           THEN IF EFOutcome(op) = "panic" THEN EFR({"panic"}, EFNone, <<"val", <<>>>>)
                ELSE EFR({"panic", "ret"}, EFState("ef", Len(X), S.u, op.kind, <<>>, FALSE), <<"same">>)
           ELSE IF S.form = "cbuilder" /\ S.full
           THEN EFR({"ret"}, EFState("ef", S.n, S.u, op.kind, <<>>, FALSE), <<"same">>)
           ELSE IF S.form = "cbuilder" /\ CsComplete(S) /\ EFMonotone(CsSeq(S))
           THEN EFR({"ret"}, EFState("ef", S.n, S.u, op.kind, <<>>, FALSE), <<"val", CsSeq(S)>>)
           ELSE EFNa(S)          \* concurrent builder with missing values: outside set's contract
      [] o = "from" ->
           IF op.kind \notin AllKinds THEN EFNa(S)
           ELSE IF EFMonotone(op.xs)
           THEN EFR({"ret"}, EFState("ef", Len(op.xs), EFLast(op.xs), op.kind, <<>>, FALSE), <<"op">>)
           ELSE EFR({"panic"}, EFNone, <<"val", <<>>>>)
      [] o = "estimate_size" -> EFKeep(S)
      [] o \in QueryOps -> IF S.form = "ef" THEN QEff(op, S, X) ELSE EFNa(S)

\* exact remaining-length hints: before the j-th call of next (j = 1 ..
\* rem + 1) the iterator reports rem - (j - 1) three times
HintsOK(ev, rem) ==
    ("lens" \notin DOMAIN ev) \/
    /\ Len(ev.lens) = rem + 1 /\ Len(ev.los) = rem + 1 /\ Len(ev.his) = rem + 1
    /\ \A j \in 1 .. (rem + 1) :
          /\ ev.lens[j] = rem - (j - 1)
          /\ ev.los[j] = rem - (j - 1)
          /\ ev.his[j] = <<rem - (j - 1)>>

\* the values yielded from position k (0-based) to the end
SuffixOK(X, k, r) ==
    /\ Len(r) = Len(X) - k
    /\ \A j \in 1 .. Len(r) : r[j] = X[k + j]

\* ev: the logged event of an operation that returned; S, X: state before
ResultOK(ev, S, X) ==
    LET o == ev.op IN
    CASE o = "len" -> ev.res = Len(X)
      [] o \in {"iter", "into_iter"} -> SuffixOK(X, 0, ev.res) /\ HintsOK(ev, Len(X))
      [] o = "iter_from" -> SuffixOK(X, ev.k, ev.res) /\ HintsOK(ev, Len(X) - ev.k)
      [] o = "get" -> ev.res = X[ev.i + 1]
      [] o = "index_of" -> IndexOfOK(X, ev.q, ev.res)
      [] o = "contains" -> ev.res = ~IndexOfOK(X, ev.q, <<>>)
      [] o = "succ" -> SuccOK(X, ev.q, FALSE, ev.res)
      [] o = "succ_strict" -> SuccOK(X, ev.q, TRUE, ev.res)
      [] o = "pred" -> PredOK(X, ev.q, FALSE, ev.res)
      [] o = "pred_strict" -> PredOK(X, ev.q, TRUE, ev.res)
      [] o = "succ_unchecked" -> SuccOK(X, ev.q, ev.strict, ev.res)
      [] o = "pred_unchecked" -> PredOK(X, ev.q, ev.strict, ev.res)
      [] o = "mem_size" -> S.kind # "plain" \/ MemSizeOK(ev.res, S.n, S.u)
      [] OTHER -> TRUE

\* invariants of the abstract state
EFStateOK(S, X) ==
    /\ S.form \in {"none", "builder", "cbuilder", "ef"}
    /\ EFMonotone(X) /\ EFBounded(X, S.u)
    /\ S.form = "builder" => Len(X) <= S.n
    /\ S.form = "ef" => Len(X) = S.n /\ S.kind \in AllKinds
    /\ S.form \in {"none"} => X = <<>>

=============================================================================
