SPECIFICATION MCSpec
CONSTANTS
  W = 2
  Masked = TRUE
  Clipped = TRUE
  Aligned = TRUE
  MaxWords = 4
  Layouts <- LayoutsS
  Bpis = {1, 2}
INVARIANTS DesignOK
CHECK_DEADLOCK FALSE
