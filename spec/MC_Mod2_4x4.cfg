SPECIFICATION MCSpec
CONSTANTS
  MaxV = 4
  MaxE = 4
  CBits = {0}
  Part = 4
  Export = FALSE
INVARIANTS DomainOK SolvAgree SatAgree GaussOK LazyOK LazyShape AddOK
CHECK_DEADLOCK FALSE
