SPECIFICATION PSpec
CONSTANTS
  NV = 5
  MaxE = 3
  VBits = 1
INVARIANTS Solved NoOOB Honest
PROPERTY Termination
CHECK_DEADLOCK FALSE
