------------------------ MODULE MC_SelectSmallDesign ------------------------
(***************************************************************************)
(* Exhaustive check of SelectSmallDesign: every backend of at most         *)
(* MaxWords words of W bits (garbage beyond the length included), every    *)
(* length, every layout of Layouts (with superblocks of one or two         *)
(* blocks), ones and zeros, every blocks-per-inventory value of Bpis.      *)
(***************************************************************************)
EXTENDS SelectSmallDesign, TLC

CONSTANTS MaxWords, Layouts, Bpis

VARIABLES var, zero, rs, D, built
mcvars == <<len, nw, store, var, zero, rs, D, built>>

Variants == { [wpb |-> t[1], wps |-> t[2], ubw |-> t[3]] : t \in Layouts }
\* <<wpb, wps, ubw>>: direct word read (wps = 1) and scanned sub-blocks; superblock = 1 or 2 blocks
LayoutsS == { <<1, 1, 1>>, <<1, 1, 2>>, <<2, 1, 2>>, <<2, 1, 4>>, <<2, 2, 2>>, <<4, 2, 4>>, <<4, 1, 4>> }

\* A single initial state; Pick chooses the backend and the length.  (With one initial state per
\* vector TLC's coverage bookkeeping re-walks the large invariant for every initial state.)
NoVar == [wpb |-> 1, wps |-> 1, ubw |-> 1]
NoRs  == [counts |-> <<>>, upper |-> <<>>, num |-> 0, reads |-> {}]
MCInit == /\ nw = 0 /\ store = {} /\ len = 0
          /\ var = NoVar /\ zero = FALSE /\ rs = NoRs
          /\ D = [panic |-> FALSE] /\ built = "init"

Pick == /\ built = "init"
        /\ nw' \in 0 .. MaxWords
        /\ store' \in SUBSET (0 .. (nw' * W - 1))
        /\ len' \in 0 .. (nw' * W)
        /\ built' = "vec"
        /\ UNCHANGED <<var, zero, rs, D>>

BuildSmall == /\ built = "vec"
              /\ \E x \in Variants, z \in BOOLEAN, b \in Bpis :
                   /\ var' = x /\ zero' = z
                   /\ rs' = Construct(x)
                   /\ D' = ConstructSmall(x, z, Construct(x), b)
              /\ built' = "built"
              /\ UNCHANGED <<len, nw, store>>

MCNext == Pick \/ BuildSmall
MCSpec == MCInit /\ [][MCNext]_mcvars

DesignOK == (built = "built") => SmallSelectOK(var, zero, rs, D)
=============================================================================
