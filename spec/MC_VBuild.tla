------------------------------ MODULE MC_VBuild ------------------------------
(***************************************************************************)
(* Bounded instance of the build loop of VBuild.                           *)
(*                                                                         *)
(* The *design* is CodeEvents: what VBuilder::build_loop / try_seed emit   *)
(* next in a given state (one hook event per step), over abstract keys     *)
(* 0 .. n-1, with Bits(k) an uninterpreted monotone step function (the     *)
(* number of shard bits for k keys; thresholds Thr).  Reading a pass is    *)
(* modelled key by key (ReadKeyOk, ReadKeyIoError, ReadValOk, ...), and    *)
(* must agree with the closed form PassOutcome used by trace validation.   *)
(* TLC explores every configuration: n, duplicates, check_dups, function   *)
(* or filter, hint class, every fault placement (source x pass x index),   *)
(* a failing rewind at each rewind, bounded transient failures.            *)
(*                                                                         *)
(* Order = "fixed" is the code as it is; Order = "hint-first" is the code  *)
(* before commit 794b9f8 (into_shard_store with the bits of the previous   *)
(* set_up_shards): MC_VBuild_regress.cfg shows that OkIsWhole fails there. *)
(*                                                                         *)
(* Export = TRUE: no behaviour is explored; every initial configuration    *)
(* is printed as a script for the executor (spec -> implementation).       *)
(***************************************************************************)
EXTENDS VBuild, TLC, Json

CONSTANTS MaxN,          \* keys 0 .. MaxN
          Thr,           \* thresholds of Bits
          MaxPass,       \* faults are placed in passes 0 .. MaxPass
          MaxTransient,  \* unsolvable / max-shard failures per behaviour
          Order,         \* "fixed" | "hint-first"
          Export

VARIABLES st,      \* state of the loop (VBuild!InitLoop ...)
          cfg,     \* configuration of this build
          rp,      \* fine-grained reading: next position
          rsrc,    \* fine-grained reading: source read next ("key" | "val" | "-")
          final    \* <<>> while running, <<Expected>> at the end
mcvars == <<st, cfg, rp, rsrc, final>>

Bits(k) == Cardinality({t \in Thr : k >= t})
MaxThr  == CHOOSE t \in Thr : \A u \in Thr : u <= t

HintClasses == {"none", "exact", "smaller", "larger"}
HintOf(class, n) ==
    CASE class = "none" -> <<>>
      [] class = "exact" -> <<n>>
      [] class = "smaller" -> <<0>>
      [] class = "larger" -> <<MaxThr>>

FaultMenu(n, filter) ==
    { [src |-> "key", kind |-> "read", pass |-> p, idx |-> i] : p \in 0 .. MaxPass, i \in 0 .. n }
    \cup (IF filter THEN {}
          ELSE { [src |-> "val", kind |-> "read", pass |-> p, idx |-> i] : p \in 0 .. MaxPass, i \in 0 .. (n - 1) })
RewindMenu(filter) ==
    { [src |-> s, kind |-> "rewind", pass |-> k, idx |-> 0] :
        s \in (IF filter THEN {"key"} ELSE {"key", "val"}), k \in 1 .. MaxPass }

\* at most one read fault and at most one rewind fault
FaultSets(n, filter) ==
    LET R == {{}} \cup {{f} : f \in FaultMenu(n, filter)}
        W == {{}} \cup {{f} : f \in RewindMenu(filter)}
    IN  {r \cup w : r \in R, w \in W}

Configs ==
    UNION { UNION { UNION { UNION {
        { [n |-> n, dups |-> d, checkDups |-> cd, filter |-> f, hclass |-> h,
           hint |-> HintOf(h, n), vn |-> <<>>, faults |-> F] : F \in FaultSets(n, f) } :
        h \in HintClasses } :
        f \in BOOLEAN } :
        d \in (IF n >= 2 THEN BOOLEAN ELSE {FALSE}), cd \in BOOLEAN } :
        n \in 0 .. MaxN }

\* the domain of the properties: duplicates only with check_dups
InDomain(c) == c.dups => c.checkDups

(***************************************************************************)
(* The design: events the code emits next.                                 *)
(***************************************************************************)
CodeEvents(s, c) ==
    CASE s.pc = "init" ->
           {<<"start", IF c.hint # <<>> THEN Bits(c.hint[1]) ELSE 8>>}
      [] s.pc = "loop" -> {<<"attempt", s.dupCount>>}
      [] s.pc = "k1" -> {<<"edge_bits", Bits(s.numKeys)>>}
      [] s.pc = "k2" ->
           {<<"store_bits",
              IF Order = "fixed" THEN s.edgeBits
              ELSE IF s.attempts = 1 THEN (IF c.hint # <<>> THEN Bits(c.hint[1]) ELSE 0)
              ELSE s.edgeBits>>}
      [] s.pc = "k3" -> {<<"max_shard", v>> : v \in {CeilDivV(c.n, Pow2(s.storeBits)), c.n}}
      [] s.pc = "k4" ->
           {<<"num_shards", Pow2(s.edgeBits)>>}
           \cup (IF s.storeBits > 0 /\ s.transient < MaxTransient THEN {<<"max_shard_too_big", 0>>} ELSE {})
      [] s.pc = "k5" -> {<<"num_vertices", c.n + 6>>}
      [] s.pc = "solve" ->
           (IF c.dups /\ c.checkDups THEN {<<"dup_sig", s.dupCount>>} ELSE {<<"ok", 0>>})
           \cup (IF s.transient < MaxTransient THEN {<<"unsolvable", 0>>} ELSE {})
      [] s.pc = "cls" ->
           IF s.cls = "dup_sig" /\ s.dupCount >= 3 THEN {<<"fail_dup", s.dupCount>>} ELSE {<<"rewind", 0>>}
      [] s.pc = "rew" ->
           IF RewindFaults(c, s.pass + 1) = {} THEN {<<"attempt", s.dupCount>>} ELSE {}
      [] OTHER -> {}

(***************************************************************************)
(* Behaviour                                                               *)
(***************************************************************************)
MCInit == /\ cfg \in {c \in Configs : InDomain(c)}
          /\ st = InitLoop
          /\ rp = 0 /\ rsrc = "-"
          /\ final = <<>>

Running == ~Export /\ final = <<>>

Emitting(e) == /\ e \in CodeEvents(st, cfg)
               /\ st' = Step(st, cfg, e)
               /\ UNCHANGED <<cfg, final>>

ApplyHint    == Running /\ st.pc = "init" /\ \E e \in CodeEvents(st, cfg) : Emitting(e) /\ UNCHANGED <<rp, rsrc>>
BeginAttempt == Running /\ st.pc = "loop" /\ (\E e \in CodeEvents(st, cfg) : Emitting(e)) /\ rp' = 0 /\ rsrc' = "key"

\* ---- reading one pass, key by key
HasFault(src, p, i) == \E f \in cfg.faults : f.kind = "read" /\ f.src = src /\ f.pass = p /\ f.idx = i
ReadKeyOk ==
    /\ Running /\ st.pc = "read" /\ rsrc = "key" /\ rp < cfg.n
    /\ ~HasFault("key", st.pass, rp)
    /\ rsrc' = "val" /\ UNCHANGED <<st, cfg, rp, final>>
ReadKeyIoError ==
    /\ Running /\ st.pc = "read" /\ rsrc = "key" /\ rp <= cfg.n
    /\ HasFault("key", st.pass, rp)
    /\ final' = <<[kind |-> "err", err |-> "io",
                   fault |-> [src |-> "key", kind |-> "read", pass |-> st.pass, idx |-> rp]]>>
    /\ UNCHANGED <<st, cfg, rp, rsrc>>
ReadValOk ==
    /\ Running /\ st.pc = "read" /\ rsrc = "val"
    /\ (cfg.filter \/ ~HasFault("val", st.pass, rp))
    /\ rp' = rp + 1 /\ rsrc' = "key" /\ UNCHANGED <<st, cfg, final>>
ReadValIoError ==
    /\ Running /\ st.pc = "read" /\ rsrc = "val"
    /\ ~cfg.filter /\ HasFault("val", st.pass, rp)
    /\ final' = <<[kind |-> "err", err |-> "io",
                   fault |-> [src |-> "val", kind |-> "read", pass |-> st.pass, idx |-> rp]]>>
    /\ UNCHANGED <<st, cfg, rp, rsrc>>
EndOfKeys ==
    /\ Running /\ st.pc = "read" /\ rsrc = "key" /\ rp = cfg.n
    /\ ~HasFault("key", st.pass, rp)
    /\ st' = Step(st, cfg, <<"keys", rp>>)
    /\ rsrc' = "-" /\ UNCHANGED <<cfg, rp, final>>

SetUpShards    == Running /\ st.pc = "k1" /\ (\E e \in CodeEvents(st, cfg) : Emitting(e)) /\ UNCHANGED <<rp, rsrc>>
IntoShardStore == Running /\ st.pc \in {"k2", "k3"} /\ (\E e \in CodeEvents(st, cfg) : Emitting(e)) /\ UNCHANGED <<rp, rsrc>>
CheckMaxShard  == Running /\ st.pc = "k4" /\ (\E e \in CodeEvents(st, cfg) : e[1] = "max_shard_too_big" /\ Emitting(e)) /\ UNCHANGED <<rp, rsrc>>
SetUpGraphs    == Running /\ st.pc \in {"k4", "k5"} /\ (\E e \in CodeEvents(st, cfg) : e[1] # "max_shard_too_big" /\ Emitting(e)) /\ UNCHANGED <<rp, rsrc>>
SolveOk        == Running /\ st.pc = "solve" /\ (\E e \in CodeEvents(st, cfg) : e[1] = "ok" /\ Emitting(e)) /\ UNCHANGED <<rp, rsrc>>
SolveDuplicateSignature ==
                  Running /\ st.pc = "solve" /\ (\E e \in CodeEvents(st, cfg) : e[1] = "dup_sig" /\ Emitting(e)) /\ UNCHANGED <<rp, rsrc>>
SolveUnsolvable == Running /\ st.pc = "solve" /\ (\E e \in CodeEvents(st, cfg) : e[1] = "unsolvable" /\ Emitting(e)) /\ UNCHANGED <<rp, rsrc>>
Classify       == Running /\ st.pc = "cls" /\ (\E e \in CodeEvents(st, cfg) : Emitting(e)) /\ UNCHANGED <<rp, rsrc>>
RewindOk       == Running /\ st.pc = "rew" /\ (\E e \in CodeEvents(st, cfg) : Emitting(e)) /\ rp' = 0 /\ rsrc' = "key"
RewindError ==
    /\ Running /\ st.pc = "rew" /\ RewindFaults(cfg, st.pass + 1) # {}
    \* the code rewinds the values first
    /\ LET F == RewindFaults(cfg, st.pass + 1)
           f == IF \E g \in F : g.src = "val" THEN CHOOSE g \in F : g.src = "val" ELSE CHOOSE g \in F : TRUE
       IN  final' = <<[kind |-> "err", err |-> "io", fault |-> f]>>
    /\ UNCHANGED <<st, cfg, rp, rsrc>>
Return ==
    /\ Running /\ st.pc = "done"
    /\ final' = <<[kind |-> IF st.result = "ok" THEN "ok" ELSE "err", err |-> st.result,
                   fault |-> [src |-> "-", kind |-> "-", pass |-> 0, idx |-> 0]]>>
    /\ UNCHANGED <<st, cfg, rp, rsrc>>
ReturnOk  == Return /\ st.result = "ok"
ReturnErr == Return /\ st.result # "ok"

MCNext == \/ ApplyHint \/ BeginAttempt
          \/ ReadKeyOk \/ ReadKeyIoError \/ ReadValOk \/ ReadValIoError \/ EndOfKeys
          \/ SetUpShards \/ IntoShardStore \/ CheckMaxShard \/ SetUpGraphs
          \/ SolveOk \/ SolveDuplicateSignature \/ SolveUnsolvable
          \/ Classify \/ RewindOk \/ RewindError \/ ReturnOk \/ ReturnErr

MCSpec     == MCInit /\ [][MCNext]_mcvars
\* fairness: the code is sequential, every enabled step is eventually taken
MCFairSpec == MCSpec /\ WF_mcvars(MCNext)

(***************************************************************************)
(* Invariants                                                              *)
(***************************************************************************)
\* the acceptor used for trace validation admits everything the design does
DesignAccepted == st.pc # "rejected"

InvOkIsWhole      == OkIsWhole(st, cfg)
InvErrorsSurface  == ErrorsSurface(st, cfg)
InvDupBound       == DupBound(st, cfg)
InvHintIrrelevant == HintIrrelevant(st, cfg, Bits(cfg.n))

\* the result returned at the end is the one trace validation expects, and
\* reading key by key agrees with the closed form
ResultAsExpected ==
    final # <<>> =>
        LET x == Expected(st, cfg)
            r == final[1]
        IN  /\ x.kind = r.kind
            /\ (r.kind = "err" => x.err = r.err)
            /\ (r.kind = "err" /\ r.err = "io" => r.fault \in x.faults)

\* a returned function is the whole abstract map: built over exactly the n
\* keys supplied (so Len = n and Get(k_i) = v_i for the abstract solver,
\* which stores every pair of the pass it was given)
AbstractMap ==
    (final # <<>> /\ final[1].kind = "ok") =>
        /\ st.numKeys = cfg.n /\ ~cfg.dups
        /\ rp = cfg.n                      \* the last pass lent every key
        /\ PassOutcome(cfg, st.pass).kind = "complete"

\* an error is returned only for a reason the property names
ErrorsAreJustified ==
    (final # <<>> /\ final[1].kind = "err") =>
        \/ final[1].err = "io" /\ final[1].fault \in cfg.faults
        \/ final[1].err = "DuplicateKey" /\ cfg.dups /\ cfg.checkDups

Bounded == st.attempts <= 4 + MaxTransient + 1

\* liveness: every build returns
Termination == <>(final # <<>>)

(***************************************************************************)
(* Export: one script per configuration (the real code decides how the     *)
(* build goes; Trace_VBuild decides whether that was admissible).          *)
(***************************************************************************)
RealHint(c) ==
    CASE c.hclass = "none" -> <<>>
      [] c.hclass = "exact" -> <<c.n>>
      [] c.hclass = "smaller" -> <<c.n \div 2>>
      [] c.hclass = "larger" -> <<400000 + c.n>>

SeqOfSet(S) == LET RECURSIVE F(_)
                   F(T) == IF T = {} THEN <<>>
                           ELSE LET x == CHOOSE y \in T : TRUE IN <<x>> \o F(T \ {x})
               IN  F(S)

ScriptOf(c) ==
    LET b == [op |-> "build", kind |-> IF c.filter THEN "filter" ELSE "func",
              backend |-> IF c.filter THEN "box" ELSE "bfv",
              wt |-> IF c.filter THEN "u8" ELSE "usize", logic |-> "shards", sig |-> 2, bits |-> 8,
              n |-> c.n, subst |-> IF c.dups THEN <<<<c.n - 1, 0>>>> ELSE <<>>,
              vals |-> [a |-> 1, c |-> 3, m |-> 20, hi |-> <<>>, vn |-> <<>>],
              check_dups |-> c.checkDups, hint |-> RealHint(c), log2_buckets |-> <<>>,
              faults |-> SeqOfSet(c.faults)]
        q == IF c.filter
             THEN <<[op |-> "len"], [op |-> "contains", from |-> 0, count |-> c.n + 2],
                    [op |-> "index", from |-> 0, count |-> c.n + 2]>>
             ELSE <<[op |-> "len"], [op |-> "get", from |-> 0, count |-> c.n + 2, wide |-> FALSE]>>
    IN  [fam |-> "vbuild", src |-> "tlc", kt |-> "usize", keyfn |-> [t |-> "range", start |-> 7],
         budget_ms |-> 60000, ops |-> <<b>> \o q]

Emit == (Export /\ st.pc = "init") => PrintT(<<"SCRIPT", ToJson(ScriptOf(cfg))>>)
=============================================================================
