----------------------------- MODULE RankDesign -----------------------------
(***************************************************************************)
(* Scaled transcription of the ranking structures of sux::rank_sel         *)
(* (src/rank_sel/rank9.rs, rank_small.rs, the hinted word scan of          *)
(* src/bits/bit_vec.rs and the clamp of traits/rank_sel.rs Rank::rank).    *)
(*                                                                         *)
(* The backend is  nw  words of  W  bits;  store  is the set of positions  *)
(* that are 1 in it, *including positions at or beyond  len* (stale bits   *)
(* of the last word, spare words): whatever they hold, every answer must   *)
(* be that of the abstract vector  store \cap [0, len).                    *)
(*                                                                         *)
(* A variant fixes the layout:                                             *)
(*   wpb   words per block (one absolute counter per block)                *)
(*   wps   words per sub-block (one relative counter per sub-block, the    *)
(*         first one implicit); wps = 1 : the word is read directly,       *)
(*         wps > 1 : the remaining words are scanned (rank_hinted)         *)
(*   ubw   words per upper block (64-bit upper counts; 2^26 in the code),  *)
(*         0 for Rank9, which has none and keeps a sentinel counter        *)
(* Code:   Rank9 (8,1,-)  rank_small![0] (8,1)  [1] (8,2)  [2] (16,4)      *)
(*         [3] (32,8)  [4] (128,16), upper blocks of 2^26 words.           *)
(* Every array read goes through an explicit bounds check: the structure   *)
(* returned by a constructor or a query carries `oob`, which is TRUE as    *)
(* soon as an index outside its array is read.                             *)
(***************************************************************************)
EXTENDS Naturals, Sequences, FiniteSets

CONSTANTS W,          \* bits per word
          Masked      \* TRUE: constructors mask the last word to len (the repaired code)

VARIABLES len, nw, store

CeilDiv(a, b) == (a + b - 1) \div b
NumWords == CeilDiv(len, W)

WordBits(k) == {b \in 0 .. (W - 1) : (k * W + b) \in store}
Pop(S) == Cardinality(S)

\* the abstract vector and its rank
AbsOnes == {i \in store : i < len}
AbsRank(p) == Cardinality({i \in AbsOnes : i < p})

(***************************************************************************)
(* Constructors.  `word(i)` of the repaired code: the last word of the     *)
(* vector is masked to the length before it is counted.                    *)
(***************************************************************************)
CtorWord(i) ==
    IF Masked /\ i + 1 = NumWords /\ len % W # 0
    THEN {b \in WordBits(i) : b < len % W}
    ELSE WordBits(i)

\* inner loop  for j in 1..wpb : relative counters and accumulation
\* st = [num, rels, reads]; rels gets one entry per sub-block boundary
RECURSIVE InnerLoop(_, _, _, _, _)
InnerLoop(var, i, j, base, st) ==
    IF j = var.wpb THEN st
    ELSE LET st1 == IF j % var.wps = 0
                    THEN [st EXCEPT !.rels = Append(@, st.num - base)]
                    ELSE st
             rd  == i + j < NumWords
             st2 == IF rd THEN [st1 EXCEPT !.num = @ + Pop(CtorWord(i + j)), !.reads = @ \cup {i + j}]
                          ELSE st1
         IN  InnerLoop(var, i, j + 1, base, st2)

\* outer loop  for i in (0..num_words).step_by(wpb)
\* acc = [num, upper, ucur, counts, reads]
RECURSIVE OuterLoop(_, _, _)
OuterLoop(var, i, acc) ==
    IF i >= NumWords THEN acc
    ELSE LET newUpper == var.ubw # 0 /\ i % var.ubw = 0
             ucur  == IF newUpper THEN acc.num ELSE acc.ucur
             upper == IF newUpper THEN Append(acc.upper, acc.num) ELSE acc.upper
             abs   == acc.num - ucur                       \* absolute counter of the block
             st0   == [num |-> acc.num + Pop(CtorWord(i)), rels |-> <<>>, reads |-> acc.reads \cup {i}]
             st    == InnerLoop(var, i, 1, acc.num, st0)
         IN  OuterLoop(var, i + var.wpb,
                       [num |-> st.num, upper |-> upper, ucur |-> ucur,
                        counts |-> Append(acc.counts, [abs |-> abs, rels |-> st.rels]),
                        reads |-> st.reads])

\* Rank9::new / RankSmall::new: counts (Rank9: plus the sentinel holding the
\* total), upper counts, num_ones, and the backend words read
Construct(var) ==
    LET r == OuterLoop(var, 0, [num |-> 0, upper |-> <<>>, ucur |-> 0, counts |-> <<>>, reads |-> {}])
    IN  [counts |-> IF var.ubw = 0 THEN Append(r.counts, [abs |-> r.num, rels |-> <<>>]) ELSE r.counts,
         upper  |-> r.upper,
         num    |-> r.num,
         reads  |-> r.reads]

(***************************************************************************)
(* Queries.                                                                *)
(***************************************************************************)
\* counters.rel(k): the first relative counter is implicit (zero extension)
Rel(c, k) == IF k = 0 THEN 0 ELSE c.rels[k]

\* BitVec::rank_hinted(pos, hint_pos, hint_rank): scans whole words from
\* hint_pos, then the partial word
RECURSIVE HintedScan(_, _, _, _)
HintedScan(pos, hp, rank, reads) ==
    IF (hp + 1) * W <= pos
    THEN HintedScan(pos, hp + 1, rank + Pop(WordBits(hp)), reads \cup {hp})
    ELSE [val |-> rank + Pop({b \in WordBits(hp) : b < pos % W}), reads |-> reads \cup {hp}]

\* rank_unchecked(pos): documented for pos < len (Rank9: also pos = len when
\* the backend has an unused bit)
RankUnchecked(var, s, pos) ==
    LET wp     == pos \div W
        block  == wp \div var.wpb
        off    == (wp % var.wpb) \div var.wps
        cOK    == block < Len(s.counts)
        uOK    == var.ubw = 0 \/ (wp \div var.ubw) < Len(s.upper)
        c      == IF cOK THEN s.counts[block + 1] ELSE [abs |-> 0, rels |-> <<>>]
        relOK  == off = 0 \/ off <= Len(c.rels)
        up     == IF var.ubw = 0 \/ ~uOK THEN 0 ELSE s.upper[(wp \div var.ubw) + 1]
        hint   == up + c.abs + (IF relOK THEN Rel(c, off) ELSE 0)
        scan   == IF var.wps = 1
                  THEN [val |-> hint + Pop({b \in WordBits(wp) : b < pos % W}), reads |-> {wp}]
                  ELSE HintedScan(pos, wp - ((wp % var.wpb) % var.wps), hint, {})
    IN  [val |-> scan.val,
         oob |-> ~cOK \/ ~uOK \/ ~relOK \/ \E k \in scan.reads : k >= nw]

\* Rank::rank(pos): the clamp of the trait
RankAlg(var, s, pos) ==
    IF pos >= len THEN [val |-> s.num, oob |-> FALSE] ELSE RankUnchecked(var, s, pos)

\* RankZero::rank_zero
RankZeroAlg(var, s, pos) == [val |-> pos - RankAlg(var, s, pos).val, oob |-> RankAlg(var, s, pos).oob]

(***************************************************************************)
(* Invariants of a constructed structure  s  of variant  var .             *)
(***************************************************************************)
\* number of values a relative counter can hold: the block size in bits
\* (9 bits for 512-bit blocks, ... 13 bits for 8192-bit blocks)
RelFits(var, s) ==
    \A k \in 1 .. Len(s.counts) : \A j \in 1 .. Len(s.counts[k].rels) : s.counts[k].rels[j] < var.wpb * W

CtorNoOOB(s) == \A k \in s.reads : k < nw

NumOnesOK(s) == s.num = Cardinality(AbsOnes)

RankOK(var, s) ==
    \A p \in 0 .. (len + 2) :
        /\ RankAlg(var, s, p).val = AbsRank(p)
        /\ ~RankAlg(var, s, p).oob
        /\ RankZeroAlg(var, s, p).val = p - AbsRank(p)

\* Rank9's documented extension: rank_unchecked(len) is legal, and right,
\* whenever the backend has at least one unused bit
Rank9AtLen(var, s) ==
    (var.ubw = 0 /\ nw * W > len) =>
        /\ RankUnchecked(var, s, len).val = Cardinality(AbsOnes)
        /\ ~RankUnchecked(var, s, len).oob

\* space (C11): counters allocated by the constructor, in "counter units"
\* (one per block, the sentinel of Rank9, one upper count per upper block)
CountersOK(var, s) ==
    /\ Len(s.counts) = CeilDiv(len, var.wpb * W) + (IF var.ubw = 0 THEN 1 ELSE 0)
    /\ (var.ubw # 0 => Len(s.upper) = CeilDiv(len, var.ubw * W))
    /\ \A k \in 1 .. Len(s.counts) :
          Len(s.counts[k].rels) = (IF var.ubw = 0 /\ k = Len(s.counts) THEN 0 ELSE var.wpb \div var.wps - 1)
=============================================================================
