SPECIFICATION TraceSpec
CONSTANT InstOf <- TraceInst
INVARIANT TraceInv
POSTCONDITION TraceAccepted
CHECK_DEADLOCK FALSE
