SPECIFICATION ExportSpec
CONSTANTS
  MaxBits = 0
  MaxL = 1
  MaxS = 0
  MaxT = 1
  B = 2
  NMenu = {0, 1, 2, 3, 100, 101, 1000, 50000, 99999, 100000, 100001, 199999, 200000, 799999, 800000, 800001, 20000001}
  BigN = {800001, 20000001}
  XImpls <- XFuse
  Export = TRUE
INVARIANTS Emit
CHECK_DEADLOCK FALSE
