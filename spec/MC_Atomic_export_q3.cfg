SPECIFICATION MCSpec
CONSTANTS
  InstOf <- Ident
  W = 64
  Widths = {3, 5, 13, 33}
  NThreads = {3}
  Menu = {"field"}
  AllValues = FALSE
  Rots = {0}
  PatSet = {"alt"}
  Boundaries = {1}
  NearFields = 0
  EFN = {}
  EFMaxThreads = 3
  MaxT = 3
  Export = TRUE
INVARIANTS Emit
CHECK_DEADLOCK FALSE
