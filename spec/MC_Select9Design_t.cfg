SPECIFICATION MCSpec
CONSTANTS
  Fixed = TRUE
  Prefixes = {0, 1000}
  Fulls = {512, 1100, 4100, 16500, 33000, 66000, 131072, 140000}
  MaxFull = 2
  Lasts <- LastsT
  Pads = {0, 192}
INVARIANTS DesignOK SpaceOK
CHECK_DEADLOCK FALSE
