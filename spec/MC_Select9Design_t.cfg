SPECIFICATION MCSpec
CONSTANTS
  Fixed = TRUE
  Prefixes = {0, 70, 1000}
  Fulls = {512, 700, 1100, 4100, 16500, 33000, 40000, 66000, 100000, 131072, 140000}
  MaxFull = 2
  Lasts <- LastsT
  Pads = {0, 64, 128, 192}
INVARIANTS DesignOK SpaceOK
CHECK_DEADLOCK FALSE
