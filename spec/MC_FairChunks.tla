---------------------------- MODULE MC_FairChunks ----------------------------
(* Bounded design model of FairChunks: every weight sequence over MaxWt of   *)
(* length <= MaxN, every target 0 .. MaxT, every admissible successor        *)
(* choice; the chunks partition 0 .. n-1 and satisfy the weight contract.    *)
EXTENDS FairChunks, TLC, Json
CONSTANTS MaxN, MaxWt, MaxT, Export
VARIABLE hist
mcvars == <<wts, target, cum, pos, cw, done, hist>>

AllWts == UNION {[1 .. n -> 0 .. MaxWt] : n \in 0 .. MaxN}

MCInit == \E w \in AllWts, t \in 0 .. MaxT : FCInit(w, t) /\ hist = <<>>
Step   == /\ ~done
          /\ \E c \in NextChoices : Install(c) /\ hist' = Append(hist, c.res)
MCNext == Step
MCSpec == MCInit /\ [][MCNext]_mcvars

\* at exhaustion the returned ranges partition 0 .. N-1 in order
Partition ==
    done => LET rs == SelectSeq(hist, LAMBDA r : r # <<>>) IN
            /\ (target > 0 => Len(rs) >= 1)
            /\ \A k \in 1 .. Len(rs) : rs[k][1] = (IF k = 1 THEN 0 ELSE rs[k - 1][2])
            /\ (Len(rs) >= 1 => rs[Len(rs)][2] = N)
Terminates == Len(hist) <= N + 2

Emit == (Export /\ done) =>
          PrintT(<<"SCRIPT", ToJson([fam |-> "chunks", src |-> "tlc", wts |-> wts, target |-> target,
                                      ops |-> [k \in 1 .. (Len(hist) + 1) |-> [op |-> "next"]]])>>)
=============================================================================
