----------------------------- MODULE MC_RankSel -----------------------------
(***************************************************************************)
(* Bounded instances of RankSel.                                           *)
(*  - MC_RankSel_small.cfg (Export = FALSE): every bit vector of at most   *)
(*    MaxLen bits, every stack of the menu, the actions Build / Query /    *)
(*    Reload; invariants: the run-based operators of RankSel (the ones the *)
(*    trace specification evaluates by binary search over the run list)    *)
(*    equal their set-theoretic definitions for every argument, the trait  *)
(*    tables respect the supertrait declarations of traits/rank_sel.rs,    *)
(*    every stack of the menu is well formed, the C11 bound of a stack is  *)
(*    the sum of the bounds of its layers.                                 *)
(*  - MC_RankSel_exp_*.cfg (Export = TRUE): recipe export.  Every vector   *)
(*    made of at most MaxRuns alternating runs with lengths from Lens      *)
(*    (every block size of every variant, +-1) x first bit x tail          *)
(*    treatment is turned into one script episode: the vector, then        *)
(*    PerVec stacks of the menu (rotating with the recipe, so that every   *)
(*    stack meets every shape), each followed by the query battery at the  *)
(*    run boundaries +-1, 0, len-1, len, len+1, len+64, huge.              *)
(***************************************************************************)
EXTENDS RankSel, TLC, Json, SequencesExt, FiniteSetsExt

CONSTANTS Export,       \* TRUE: print scripts
          MaxLen,       \* small model: vectors of at most MaxLen bits
          Lens,         \* export: menu of run lengths
          MaxRuns,      \* export: at most that many alternating runs
          PerVec,       \* export: stacks built per vector
          What          \* export: "rank" | "select" -- which battery

VARIABLES v,        \* the abstract vector [len, s, e, c]
          tail,     \* export: tail treatment applied to the real BitVec
          rot,      \* export: rotation offset into the menu
          stack, built, loaded,
          done

mcvars == <<v, tail, rot, stack, built, loaded, done>>

Asc(S) == SetToSortSeq(S, LAMBDA a, b : a < b)

\* ----- vectors -----------------------------------------------------------
\* the abstract vector of a set of one positions
VecOfSet(n, S) ==
    LET ss == Asc({i \in S : (i - 1) \notin S})
        ee == Asc({i + 1 : i \in {j \in S : (j + 1) \notin S}})
        k  == Len(ss)
        cc[j \in 1 .. (k + 1)] == IF j = 1 THEN 0 ELSE cc[j - 1] + ee[j - 1] - ss[j - 1]
    IN  [len |-> n, s |-> ss, e |-> ee, c |-> [j \in 1 .. (k + 1) |-> cc[j]]]

SmallVectors == UNION { { VecOfSet(n, S) : S \in SUBSET (0 .. (n - 1)) } : n \in 0 .. MaxLen }

\* the abstract vector of a sequence of alternating run lengths
VecOfLengths(first, ls) ==
    LET n == Len(ls)
        start[j \in 1 .. (n + 1)] == IF j = 1 THEN 0 ELSE start[j - 1] + ls[j - 1]
        isOne(j) == (j % 2 = 1) = first
        idx == SelectSeq([j \in 1 .. n |-> j], isOne)
        k   == Len(idx)
        ss  == [j \in 1 .. k |-> start[idx[j]]]
        ee  == [j \in 1 .. k |-> start[idx[j] + 1]]
        cc[j \in 1 .. (k + 1)] == IF j = 1 THEN 0 ELSE cc[j - 1] + ee[j - 1] - ss[j - 1]
    IN  [len |-> start[n + 1], s |-> ss, e |-> ee, c |-> [j \in 1 .. (k + 1) |-> cc[j]]]

Recipes == UNION { [1 .. n -> Lens] : n \in 1 .. MaxRuns }

Tails == << [t |-> "clean"],
            [t |-> "pop",   k |-> 5,  g |-> "ones"],
            [t |-> "trunc", k |-> 70, g |-> "alt"],
            [t |-> "raw",   g |-> "ones"],
            [t |-> "extra", k |-> 2,  g |-> "ones"],
            \* shrunk below its final length, then grown back (resize + set): the
            \* backend holds stale ones where the final contents have zeros
            [t |-> "regrow", k |-> 70, g |-> "ones", seed |-> 0] >>

\* ----- the menu of stacks (mirrors lib/gen_ranksel.py / fam_ranksel.rs) ------
ANB == [l |-> "anb", t |-> "anb"]
R9  == [l |-> "r9", t |-> "r9"]
S9  == [l |-> "s9", t |-> "s9"]
RS(k) == [l |-> CASE k = 0 -> "rs0" [] k = 1 -> "rs1" [] k = 2 -> "rs2" [] k = 3 -> "rs3" [] k = 4 -> "rs4",
          t |-> "rs", k |-> k]
SAn(b)     == [l |-> "sa", t |-> "sa", m |-> "new", b |-> b]
SAs(a, b)  == [l |-> "sa", t |-> "sa", m |-> "span", a |-> a, b |-> b]
SAi(a, b)  == [l |-> "sa", t |-> "sa", m |-> "inv", a |-> a, b |-> b]
SZAn(b)    == [l |-> "sza", t |-> "sza", m |-> "new", b |-> b]
SZAi(a, b) == [l |-> "sza", t |-> "sza", m |-> "inv", a |-> a, b |-> b]
SZAs64     == [l |-> "sza", t |-> "sza", m |-> "span", a |-> 64, b |-> 1]
SAC(name, L, M)  == [l |-> name, t |-> "sac", L |-> L, M |-> M]
SZAC(name, L, M) == [l |-> name, t |-> "szac", L |-> L, M |-> M]
SSl(k) == CASE k = 0 -> "ss0" [] k = 1 -> "ss1" [] k = 2 -> "ss2" [] k = 3 -> "ss3" [] k = 4 -> "ss4"
SZSl(k) == CASE k = 0 -> "szs0" [] k = 1 -> "szs1" [] k = 2 -> "szs2" [] k = 3 -> "szs3" [] k = 4 -> "szs4"
SS(k)      == [l |-> SSl(k), t |-> "ss", k |-> k, m |-> "new"]
SSi(k, a)  == [l |-> SSl(k), t |-> "ss", k |-> k, m |-> "inv", a |-> a]
SZS(k)     == [l |-> SZSl(k), t |-> "szs", k |-> k, m |-> "new"]
SZSi(k, a) == [l |-> SZSl(k), t |-> "szs", k |-> k, m |-> "inv", a |-> a]
MAP1(name, x)    == [l |-> name, t |-> "map", ins |-> <<x>>]
MAP2(name, x, y) == [l |-> name, t |-> "map", ins |-> <<x, y>>]

Menu == <<
    <<>>, <<ANB>>, <<R9>>, <<RS(0)>>, <<RS(1)>>, <<RS(2)>>, <<RS(3)>>, <<RS(4)>>,
    <<ANB, R9>>, <<ANB, RS(2)>>, <<R9, ANB>>, <<RS(1), ANB>>,
    <<SAn(3)>>, <<SZAi(2, 0)>>, <<ANB, SAi(3, 1)>>, <<ANB, SZAn(3)>>,
    <<ANB, SAs(64, 3), SZAi(4, 0)>>, <<ANB, SZAs64, SAi(0, 0)>>,
    <<R9, SAi(5, 2)>>, <<R9, SZAi(1, 16)>>, <<R9, SAn(0), SZAn(16)>>, <<R9, SZAi(8, 3), SAi(10, 4)>>,
    <<R9, S9>>, <<R9, S9, SZAi(6, 2)>>, <<R9, S9, SZAC("szac12_3", 12, 3)>>, <<ANB, R9, S9>>,
    <<RS(0), SAi(2, 0)>>, <<RS(1), SAn(4), SZAi(3, 1)>>, <<RS(2), SZAi(12, 3)>>, <<RS(3), SAs(8192, 1)>>,
    <<RS(4), SZAi(4, 2), SAi(4, 2)>>,
    <<ANB, SAi(4, 1), R9>>, <<ANB, SAn(3), SZAn(3), RS(3)>>, <<ANB, SZAi(0, 0), RS(0)>>, <<ANB, SAi(9, 3), R9, S9>>,
    <<ANB, R9, SAi(13, 3)>>, <<ANB, SAi(3, 0), MAP1("map:r9", R9)>>, <<ANB, SZAi(5, 1), MAP1("map:rs1", RS(1))>>,
    <<R9, MAP2("map:anb+sa", ANB, SAn(3))>>,
    <<ANB, SAC("sac8_1", 8, 1), MAP1("map:r9", R9)>>, <<ANB, SZAC("szac6_2", 6, 2), MAP1("map:rs2", RS(2))>>,
    <<ANB, R9, SAC("sac8_1", 8, 1)>>, <<ANB, RS(2), SZAC("szac6_2", 6, 2)>>,
    <<R9, SAC("sac12_3", 12, 3), SZAC("szac12_3", 12, 3)>>, <<R9, SZAC("szac8_1", 8, 1), SAC("sac8_1", 8, 1)>>,
    <<ANB, RS(1), SSi(1, 2)>>, <<RS(2), SS(2), SZAi(7, 2)>>,
    <<ANB, SAC("sac12_3", 12, 3)>>, <<ANB, SAC("sac13_0", 13, 0)>>, <<ANB, SAC("sac10_4", 10, 4)>>,
    <<ANB, SAC("sac8_1", 8, 1)>>, <<ANB, SAC("sac6_2", 6, 2)>>, <<ANB, SAC("sac3_0", 3, 0)>>,
    <<ANB, SAC("sac1_1", 1, 1)>>, <<ANB, SAC("sac0_0", 0, 0)>>,
    <<ANB, SZAC("szac12_3", 12, 3)>>, <<ANB, SZAC("szac13_0", 13, 0)>>, <<ANB, SZAC("szac8_1", 8, 1)>>,
    <<ANB, SZAC("szac6_2", 6, 2)>>, <<ANB, SZAC("szac3_0", 3, 0)>>, <<ANB, SZAC("szac0_0", 0, 0)>>,
    <<RS(0), SS(0)>>, <<RS(0), SZSi(0, 1)>>, <<RS(0), SSi(0, 1), SZS(0)>>, <<RS(0), SZSi(0, 2), SSi(0, 8)>>,
    <<RS(1), SSi(1, 1)>>, <<RS(1), SZS(1)>>, <<RS(1), SS(1), SZSi(1, 2)>>, <<RS(1), SZS(1), SS(1)>>,
    <<RS(2), SSi(2, 2)>>, <<RS(2), SZSi(2, 1)>>, <<RS(2), SSi(2, 1), SZSi(2, 8)>>, <<RS(2), SZS(2), SSi(2, 32)>>,
    <<RS(3), SS(3)>>, <<RS(3), SZSi(3, 2)>>, <<RS(3), SSi(3, 1), SZS(3)>>, <<RS(3), SZSi(3, 1), SS(3)>>,
    <<RS(4), SSi(4, 1)>>, <<RS(4), SZS(4)>>, <<RS(4), SS(4), SZSi(4, 1)>>, <<RS(4), SZSi(4, 2), SSi(4, 2)>> >>


NMenu == Len(Menu)

\* ----- query arguments of the exported batteries ---------------------------
Nat0(S) == {x \in S : x >= 0}

Positions(u) ==
    Nat0({0, u.len - 1, u.len, u.len + 1, u.len + 64}
         \cup UNION { {u.s[k] - 1, u.s[k], u.s[k] + 1, u.e[k] - 1, u.e[k], u.e[k] + 1} : k \in 1 .. NRuns(u) })

OneRanks(u) ==
    Nat0({0, Ones(u) - 1, Ones(u), Ones(u) + 1}
         \cup UNION { {u.c[k] - 1, u.c[k], u.c[k] + 1} : k \in 1 .. (NRuns(u) + 1) })

ZeroRanks(u) ==
    Nat0({0, Zeros(u) - 1, Zeros(u), Zeros(u) + 1}
         \cup UNION { {u.s[k] - u.c[k] - 1, u.s[k] - u.c[k], u.s[k] - u.c[k] + 1} : k \in 1 .. NRuns(u) })

RankBattery(u) ==
    LET ps  == Asc(Positions(u)) \o <<-1>>
        inr == Asc({p \in Positions(u) : p < u.len})
    IN  << [op |-> "len"], [op |-> "num_ones"], [op |-> "num_zeros"], [op |-> "count_ones"],
           [op |-> "rank", ps |-> ps], [op |-> "rank_zero", ps |-> ps] >>
        \o (IF inr = <<>> THEN <<>>
            ELSE << [op |-> "rank_u", ps |-> inr], [op |-> "rank_zero_u", ps |-> inr],
                    [op |-> "index", ps |-> inr],
                    [op |-> "rank_hinted", ps |-> inr,
                     hs |-> [k \in 1 .. Len(inr) |-> IF k % 2 = 0 THEN 0 ELSE inr[k] \div 64]] >>)
        \o << [op |-> "index", ps |-> <<u.len>>], [op |-> "mem_size"] >>

SelectBattery(u) ==
    LET rs  == Asc(OneRanks(u)) \o <<-1>>
        zs  == Asc(ZeroRanks(u)) \o <<-1>>
        inr == Asc({r \in OneRanks(u) : r < Ones(u)})
        inz == Asc({r \in ZeroRanks(u) : r < Zeros(u)})
        hints(xs) == [k \in 1 .. Len(xs) |-> IF k % 3 = 0 THEN 0 ELSE IF k % 3 = 1 THEN xs[k]
                                             ELSE (IF xs[k] > 5 THEN xs[k] - 5 ELSE 0)]
    IN  << [op |-> "num_ones"], [op |-> "select", rs |-> rs], [op |-> "select_zero", rs |-> zs] >>
        \o (IF inr = <<>> THEN <<>>
            ELSE << [op |-> "select_u", rs |-> inr],
                    [op |-> "select_hinted", rs |-> inr, hrs |-> hints(inr)] >>)
        \o (IF inz = <<>> THEN <<>>
            ELSE << [op |-> "select_zero_u", rs |-> inz],
                    [op |-> "select_zero_hinted", rs |-> inz, hrs |-> hints(inz)] >>)

Battery(u) == IF What = "rank" THEN RankBattery(u) ELSE SelectBattery(u)

\* the stacks a recipe builds: PerVec consecutive entries of the menu,
\* starting at an offset that changes with the recipe
RECURSIVE Builds(_, _, _)
Builds(u, from, n) ==
    IF n = 0 THEN <<>>
    ELSE <<[op |-> "build", kind |-> Menu[(from % NMenu) + 1]]>> \o Battery(u) \o Builds(u, from + 1, n - 1)

Episode ==
    [fam |-> "ranksel", src |-> "tlc",
     ops |-> <<[op |-> "vec", len |-> v.len, s |-> v.s, e |-> v.e, c |-> v.c, tail |-> tail]>>
             \o Builds(v, rot, PerVec)]

\* ----- behaviour -----------------------------------------------------------
RECURSIVE SumSeq(_)
SumSeq(q) == IF q = <<>> THEN 0 ELSE q[1] + SumSeq(Tail(q))

MCInit ==
    /\ stack = <<>> /\ built = FALSE /\ loaded = "own" /\ done = FALSE
    /\ IF Export
       THEN \E ls \in Recipes, first \in BOOLEAN, ti \in 1 .. Len(Tails) :
              /\ v = VecOfLengths(first, ls)
              /\ tail = Tails[ti]
              \* offset into the menu: spreads the stacks over the recipes
              /\ rot = PerVec * (7 * SumSeq(ls) + 3 * Len(ls) + (IF first THEN 1 ELSE 0) + 11 * ti)
       ELSE /\ v \in SmallVectors
            /\ tail = Tails[1]
            /\ rot = 0

\* the structures are static: one Build per behaviour; what a stack implements
\* does not depend on the vector, so stacks are explored over the shortest vectors only
Build == /\ ~Export /\ ~built /\ v.len <= 2
         /\ \E k \in 1 .. NMenu :
              /\ stack' = Canon(Menu[k])
              /\ built' = TRUE /\ loaded' = "own"
              /\ UNCHANGED <<v, tail, rot, done>>

Reload == /\ ~Export /\ built /\ ReloadApplicable(loaded)
          /\ \E m \in {"full", "eps", "mmap"} : loaded' = m
          /\ UNCHANGED <<v, tail, rot, stack, built, done>>

\* queries do not change the state (their results are checked by AbstractOK)
Query == /\ ~Export /\ built
         /\ {o \in QueryOps : TraitOf(o) \in CapsOf(stack, loaded)} # {}
         /\ UNCHANGED mcvars

Emitted == /\ Export /\ ~done /\ done' = TRUE
           /\ UNCHANGED <<v, tail, rot, stack, built, loaded>>

MCNext == Build \/ Reload \/ Query \/ Emitted
MCSpec == MCInit /\ [][MCNext]_mcvars

\* ----- invariants ----------------------------------------------------------
OnesSet(u) == UNION { u.s[k] .. (u.e[k] - 1) : k \in 1 .. NRuns(u) }

\* the run-based operators equal the set-theoretic definitions, for every argument
AbstractOK ==
    Export \/ built \/       \* depends on v only: evaluated in the initial states
    LET S == OnesSet(v)
        Z == (0 .. (v.len - 1)) \ S
        nth(T, r) == CHOOSE x \in T : Cardinality({y \in T : y < x}) = r
    IN  /\ WitnessOK(v)
        /\ Ones(v) = Cardinality(S) /\ Zeros(v) = Cardinality(Z)
        /\ \A p \in 0 .. (v.len + 2) :
              /\ Rank(v, p) = Cardinality({i \in S : i < p})
              /\ RankZero(v, p) = p - Cardinality({i \in S : i < p})
        /\ Rank(v, HUGE) = Cardinality(S) /\ RankZero(v, HUGE) = HUGE
        /\ \A i \in 0 .. (v.len - 1) : Bit(v, i) = (i \in S)
        /\ \A r \in 0 .. (v.len + 1) :
              /\ Select(v, r) = (IF r < Cardinality(S) THEN nth(S, r) ELSE NONE)
              /\ SelectZero(v, r) = (IF r < Cardinality(Z) THEN nth(Z, r) ELSE NONE)
        /\ Select(v, HUGE) = NONE /\ SelectZero(v, HUGE) = NONE

\* the trait tables respect the supertrait declarations of traits/rank_sel.rs
\* and every wrapper forwards word access, indexing, length and the hinted operations
CapsSane ==
    \A k \in 1 .. NMenu :
        LET st == Canon(Menu[k])
            C  == Caps(st)
        IN  /\ WellFormed(st)
            /\ {"Len", "Idx", "Words", "RankHinted", "SelectHinted", "SelectZeroHinted"} \subseteq C
            /\ ("Rank" \in C => {"RankU", "NumBits", "Len"} \subseteq C)
            /\ ("RankZero" \in C => "Rank" \in C)
            /\ ("Select" \in C => {"SelectU", "NumBits"} \subseteq C)
            /\ ("SelectZero" \in C => {"SelectZeroU", "NumBits"} \subseteq C)
            /\ ("NumBits" \in C <=> \E i \in 1 .. Len(st) : st[i].t \in {"anb", "r9", "rs"})
            /\ ("Rank" \in C <=> \E i \in 1 .. Len(st) : st[i].t \in {"r9", "rs"})
            /\ ("SelectU" \in C <=> \E i \in 1 .. Len(st) : st[i].t \in {"s9", "sa", "sac", "ss"})
            /\ ("SelectZeroU" \in C <=> \E i \in 1 .. Len(st) : st[i].t \in {"sza", "szac", "szs"})

ASSUME CapsSane     \* state-independent: evaluated once

\* C11: the bound of a stack is additive and the documented fractions are respected
\* by the allocation formulas of the code (counters per block, sentinel, inventories)
CeilDiv(a, b) == (a + b - 1) \div b
SpaceOK ==
    Export \/ built \/
    LET n == v.len
        m == Ones(v)
        nw == CeilDiv(n, 64)
    IN  /\ 16 * (CeilDiv(n, 512) + 1) + 16 <= LayerBound(R9, n)
        /\ \A k \in 0 .. 4 :
             LET wpb == CASE k \in {0, 1} -> 8 [] k = 2 -> 16 [] k = 3 -> 32 [] k = 4 -> 128 IN
             RsBlockBytes(k) * CeilDiv(n, 64 * wpb) + 8 * CeilDiv(n, 4294967) + 40 <= LayerBound(RS(k), n)
        /\ 8 * (CeilDiv(m, 512) + 1) + 8 * CeilDiv(nw, 4) + 48 <= LayerBound(S9, n)

Emit == (Export /\ done) => PrintT(<<"SCRIPT", ToJson(Episode)>>)
=============================================================================
