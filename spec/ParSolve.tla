------------------------------ MODULE ParSolve ------------------------------
(***************************************************************************)
(* The parallel shard solver of VBuilder::par_solve (property C07, "thread *)
(* schedules of the parallel shard solver").                               *)
(*                                                                         *)
(* A feeder thread sends the shards, in order, over a bounded channel      *)
(* (capacity floor(lg K); 0 is a rendezvous); K workers receive shards,    *)
(* sort them (duplicate check), look at the `failed` flag, solve, look at  *)
(* the flag again; a worker that finds a duplicate or an unsolvable shard  *)
(* sends one error over the error channel (capacity K: never blocks) and   *)
(* exits; the main thread waits for the first error (then sets `failed`    *)
(* and returns it) or for all workers to exit (then returns Ok).  As in    *)
(* the code, a worker that receives an *empty* shard exits.                *)
(*                                                                         *)
(* Kind[sh] in {"ok", "empty", "dup", "unsolvable"} is what is in shard sh.*)
(***************************************************************************)
EXTENDS Naturals, Sequences, FiniteSets

CONSTANTS MaxK,        \* instances with 1 .. MaxK workers
          S,           \* number of shards
          EmptyPolicy  \* "never" | "single" (an empty shard only if S = 1) | "any"

VARIABLES K,         \* number of workers (chosen initially, then constant)
          Kind,      \* shard -> kind (chosen initially, then constant)
          next,      \* feeder: next shard to send (S + 1: all sent)
          fdone,     \* feeder: data_send dropped
          chan,      \* data channel
          wpc,       \* worker -> "recv" | "sort" | "solve" | "post" | "exit"
          wsh,       \* worker -> shard in hand
          errs,      \* error channel
          failed,    \* the shared flag
          solved,    \* shard -> number of times solved and assigned
          result     \* "none" | "ok" | "dup" | "unsolvable"
psvars == <<K, Kind, next, fdone, chan, wpc, wsh, errs, failed, solved, result>>

Workers == 1 .. K
Shards  == 1 .. S
Lg(x)   == CHOOSE e \in 0 .. 6 : 2 ^ e <= x /\ x < 2 ^ (e + 1)
Cap     == Lg(K)       \* capacity of the data channel (0: rendezvous)

Kinds == [Shards -> {"ok", "empty", "dup", "unsolvable"}]
KindOK(f) == CASE EmptyPolicy = "never" -> \A sh \in Shards : f[sh] # "empty"
               [] EmptyPolicy = "single" -> (\E sh \in Shards : f[sh] = "empty") => S = 1
               [] OTHER -> TRUE

PSInit == /\ K \in 1 .. MaxK
          /\ Kind \in {f \in Kinds : KindOK(f)}
          /\ next = 1 /\ fdone = FALSE /\ chan = <<>>
          /\ wpc = [w \in Workers |-> "recv"] /\ wsh = [w \in Workers |-> 0]
          /\ errs = <<>> /\ failed = FALSE
          /\ solved = [sh \in Shards |-> 0]
          /\ result = "none"

Alive == {w \in Workers : wpc[w] # "exit"}
Slots == IF Cap = 0 THEN 1 ELSE Cap

\* ---- feeder
FeederSend ==
    /\ ~fdone /\ next <= S /\ Alive # {}
    /\ Len(chan) < Slots
    /\ chan' = Append(chan, next) /\ next' = next + 1
    /\ UNCHANGED <<K, Kind, fdone, wpc, wsh, errs, failed, solved, result>>
\* every receiver is gone: send fails, the feeder breaks out of its loop
FeederSendFails ==
    /\ ~fdone /\ next <= S /\ Alive = {}
    /\ fdone' = TRUE
    /\ UNCHANGED <<K, Kind, next, chan, wpc, wsh, errs, failed, solved, result>>
\* all shards sent (a rendezvous send returns only when the shard was taken)
FeederDrop ==
    /\ ~fdone /\ next = S + 1 /\ (Cap = 0 => (chan = <<>> \/ Alive = {}))
    /\ fdone' = TRUE
    /\ UNCHANGED <<K, Kind, next, chan, wpc, wsh, errs, failed, solved, result>>

\* ---- workers
Exit(w) == wpc' = [wpc EXCEPT ![w] = "exit"]

WorkerRecv(w) ==
    /\ wpc[w] = "recv" /\ chan # <<>>
    /\ chan' = Tail(chan)
    /\ wsh' = [wsh EXCEPT ![w] = Head(chan)]
    /\ IF Kind[Head(chan)] = "empty" THEN Exit(w)       \* `if shard.is_empty() { return; }`
       ELSE wpc' = [wpc EXCEPT ![w] = "sort"]
    /\ UNCHANGED <<K, Kind, next, fdone, errs, failed, solved, result>>
WorkerRecvClosed(w) ==
    /\ wpc[w] = "recv" /\ chan = <<>> /\ fdone
    /\ Exit(w)
    /\ UNCHANGED <<K, Kind, next, fdone, chan, wsh, errs, failed, solved, result>>
WorkerSort(w) ==
    /\ wpc[w] = "sort"
    /\ IF Kind[wsh[w]] = "dup"
       THEN errs' = Append(errs, "dup") /\ Exit(w)
       ELSE IF failed THEN Exit(w) /\ UNCHANGED errs
       ELSE wpc' = [wpc EXCEPT ![w] = "solve"] /\ UNCHANGED errs
    /\ UNCHANGED <<K, Kind, next, fdone, chan, wsh, failed, solved, result>>
WorkerSolve(w) ==
    /\ wpc[w] = "solve"
    /\ IF Kind[wsh[w]] = "unsolvable"
       THEN errs' = Append(errs, "unsolvable") /\ Exit(w) /\ UNCHANGED solved
       ELSE /\ solved' = [solved EXCEPT ![wsh[w]] = @ + 1]
            /\ wpc' = [wpc EXCEPT ![w] = "post"] /\ UNCHANGED errs
    /\ UNCHANGED <<K, Kind, next, fdone, chan, wsh, failed, result>>
WorkerPost(w) ==
    /\ wpc[w] = "post"
    /\ IF failed THEN Exit(w) ELSE wpc' = [wpc EXCEPT ![w] = "recv"]
    /\ UNCHANGED <<K, Kind, next, fdone, chan, wsh, errs, failed, solved, result>>

\* ---- main thread: first error, or all error senders dropped
MainError ==
    /\ result = "none" /\ errs # <<>>
    /\ failed' = TRUE /\ result' = Head(errs) /\ errs' = Tail(errs)
    /\ UNCHANGED <<K, Kind, next, fdone, chan, wpc, wsh, solved>>
MainOk ==
    /\ result = "none" /\ errs = <<>> /\ Alive = {}
    /\ result' = "ok"
    /\ UNCHANGED <<K, Kind, next, fdone, chan, wpc, wsh, errs, failed, solved>>

AllJoined == Alive = {} /\ fdone /\ result # "none"
Finished  == AllJoined /\ UNCHANGED psvars

PSNext == \/ FeederSend \/ FeederSendFails \/ FeederDrop
          \/ \E w \in Workers : WorkerRecv(w) \/ WorkerRecvClosed(w) \/ WorkerSort(w)
                                \/ WorkerSolve(w) \/ WorkerPost(w)
          \/ MainError \/ MainOk \/ Finished

PSSpec == PSInit /\ [][PSNext]_psvars /\ WF_psvars(PSNext)

(***************************************************************************)
(* Properties                                                              *)
(***************************************************************************)
TypeOK == /\ next \in 1 .. (S + 1) /\ Len(chan) <= Slots /\ Len(errs) <= K
          /\ \A sh \in Shards : solved[sh] <= 1

\* Ok => every non-empty shard was solved exactly once
OkSolvesAll ==
    result = "ok" => \A sh \in Shards : Kind[sh] # "empty" => solved[sh] = 1

\* an error is returned iff some shard cannot be solved (when all shards are fed)
ErrIsReal ==
    /\ result = "dup" => \E sh \in Shards : Kind[sh] = "dup"
    /\ result = "unsolvable" => \E sh \in Shards : Kind[sh] = "unsolvable"
    /\ result = "ok" => \A sh \in Shards : Kind[sh] \in {"ok", "empty"}

\* the scope always joins: no thread stays blocked
Termination == <>AllJoined
=============================================================================
