SPECIFICATION MCSpec
CONSTANTS
  W = 64
  MaxWords = 4
  Depth = 3
  Lens = {0, 63, 64, 65, 129}
  Export = TRUE
CONSTRAINT Bound
INVARIANTS Refines LargeEnough Emit
CHECK_DEADLOCK FALSE
