--------------------------- MODULE MC_SelectDesign ---------------------------
(***************************************************************************)
(* Exhaustive check of SelectDesign: every backend of at most MaxWords     *)
(* words of W bits (every content, garbage beyond the length included),    *)
(* every length it can hold, every parameter record of                     *)
(* Ls x Ms x {ones, zeros} x {run-time, const}.  BuildAdapt constructs the *)
(* inventory; the invariants require that the constructor does not panic,  *)
(* that select_unchecked(r) is the r-th one (zero) of the first len bits   *)
(* for every r in range, and that no unchecked read leaves its array.      *)
(***************************************************************************)
EXTENDS SelectDesign, TLC

CONSTANTS MaxWords, Ls, Ms

VARIABLES P, D, built
mcvars == <<len, nw, store, P, D, built>>

Params == { [L |-> l, M |-> m, zero |-> z, const |-> c] : l \in Ls, m \in Ms, z \in BOOLEAN, c \in BOOLEAN }

NoP == [L |-> 0, M |-> 0, zero |-> FALSE, const |-> FALSE]
NoD == [panic |-> FALSE]

MCInit == /\ nw \in 0 .. MaxWords
          /\ store \in SUBSET (0 .. (nw * W - 1))
          /\ len \in 0 .. (nw * W)
          /\ P = NoP /\ D = NoD /\ built = FALSE

BuildAdapt == /\ ~built
              /\ \E x \in Params : P' = x /\ D' = Construct(x)
              /\ built' = TRUE
              /\ UNCHANGED <<len, nw, store>>

MCNext == BuildAdapt
MCSpec == MCInit /\ [][MCNext]_mcvars

DesignOK == built => (BuildOK(D) /\ SelectOK(P, D))
=============================================================================
