SPECIFICATION MCSpec
CONSTANTS
  MaxN = 3
  Thr = {1, 3}
  MaxPass = 3
  MaxTransient = 0
  Order = "fixed"
  Export = TRUE
INVARIANTS Emit
CHECK_DEADLOCK FALSE
