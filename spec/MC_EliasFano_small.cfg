SPECIFICATION MCSpec
CONSTANTS
  Mode = "small"
  MaxN = 3
  Extra = 0
  MaxSN = 0
  MaxSU = 0
INVARIANTS StateOK PanicsAreClean AskIsPure PushRule DefsAgree
CHECK_DEADLOCK FALSE
