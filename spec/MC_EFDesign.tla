----------------------------- MODULE MC_EFDesign -----------------------------
(***************************************************************************)
(* Exhaustive check of EFDesign: every non-decreasing sequence of at most  *)
(* MaxN values bounded by u <= MaxU, every number of lower bits in         *)
(* 0 .. CodeL(n,u)+1 (the algorithms do not depend on the code's choice;   *)
(* AllL = FALSE restricts to it), every query q <= u + 3.                  *)
(***************************************************************************)
EXTENDS EFDesign, TLC

CONSTANTS MaxN, MaxU, AllL

VARIABLES du, dxs, dl, dq
dvars == <<du, dxs, dl, dq>>

Idle == dq = 0 - 2

DInit == du = 0 /\ dxs = <<>> /\ dl = 0 /\ dq = 0 - 2

\* choose the sequence and the split
Pick == /\ Idle
        /\ \E u \in 0 .. MaxU : \E n \in 0 .. MaxN : \E xs \in MonoSeqs(n, 0, u) :
           \E l \in (IF AllL THEN 0 .. (CodeL(n, u) + 1) ELSE {CodeL(n, u)}) :
              du' = u /\ dxs' = xs /\ dl' = l /\ dq' = 0 - 1

\* ask one query
Ask == /\ dq = 0 - 1
       /\ \E q \in 0 .. (du + 3) : dq' = q
       /\ UNCHANGED <<du, dxs, dl>>

DNext == Pick \/ Ask
DSpec == DInit /\ [][DNext]_dvars

Encoded == dq = 0 - 1 => EncodeOK(dxs, du, dl) /\ DecodeOK(dxs, du, dl)
Queried == dq >= 0 => QueryOK(dxs, du, dl, dq) /\ UncheckedOK(dxs, du, dl, dq)
=============================================================================
