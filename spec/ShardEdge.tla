------------------------------ MODULE ShardEdge ------------------------------
(***************************************************************************)
(* sux::func::shard_edge -- shard/edge logics (property C16; C12 for       *)
(* arbitrary signatures, C15 for reloaded logics).                         *)
(*                                                                         *)
(* A logic maps a signature (one or two 64-bit words) to a shard and to an *)
(* edge of three vertices of a backing array of  nv * 2^shardBits  cells,  *)
(* where nv = num_vertices() is the number of cells of one shard.          *)
(*                                                                         *)
(* State (set by the set-up events, read from the log: the floating-point  *)
(* parameter choice of the code is not part of the property):              *)
(*   logic, sigw   which implementation, words per signature               *)
(*   phase         "new" | "sharded" | "ready" | "wild" (after a set-up    *)
(*                 that refused its arguments: nothing is known)           *)
(*   shardBits     shard_high_bits()                                       *)
(*   nkeys         the n of the last set_up_shards                         *)
(*   nv, nsk       num_vertices(), num_sort_keys()       (wide numbers)    *)
(*   geom          the geometry of one shard                               *)
(*                   fuse: segs = l + 2 segments of 2^s cells              *)
(*                   mwhc: three thirds of nv / 3 cells                    *)
(*                                                                         *)
(* Numbers that can exceed 2^31 are base-2^15 limb sequences (Wide.tla);   *)
(* signature words are lists of set-bit positions.                         *)
(*                                                                         *)
(* Section 1 states the *design* of the graphs once, over plain naturals,  *)
(* and MC_ShardEdge proves on all small geometries that it implies the     *)
(* property (pairwise distinct, inside the array, inside the slice of the  *)
(* shard), and that scaled transcriptions of edge_1 / edge_2 / edge_2_big  *)
(* / mwhc::edge produce design edges.  Section 2 is the contract checked   *)
(* on every event of the real code.                                        *)
(***************************************************************************)
EXTENDS Wide, FiniteSets, Bitwise

SERng(s) == {s[k] : k \in DOMAIN s}

(***************************************************************************)
(* 0. The implementations                                                  *)
(***************************************************************************)
Impls == { <<"FuseLge3Shards", 2>>, <<"FuseLge3FullSigs", 2>>, <<"FuseLge3NoShards", 2>>,
           <<"FuseLge3NoShards", 1>>, <<"Mwhc3Shards", 2>>, <<"Mwhc3NoShards", 2>> }
Sharding(lg)  == lg \in {"FuseLge3Shards", "FuseLge3FullSigs", "Mwhc3Shards"}
KindOf(lg)    == IF lg \in {"Mwhc3Shards", "Mwhc3NoShards"} THEN "mwhc" ELSE "fuse"
\* ShardEdge::Vertex = u32: set_up_graphs is documented to panic when a shard
\* needs more vertices than the type can represent
Vertex32(lg, w) == Sharding(lg) \/ (lg = "FuseLge3NoShards" /\ w = 1)

(***************************************************************************)
(* 1. Design (plain naturals)                                              *)
(*                                                                         *)
(* Geometry g = [kind, bits, s, l] (fuse) or [kind, bits, t] (mwhc, t =    *)
(* cells per third).  Shard sh owns the slice [sh * NV(g), (sh+1) * NV(g)).*)
(***************************************************************************)
NV(g)      == IF g.kind = "fuse" THEN (g.l + 2) * 2^g.s ELSE 3 * g.t
NShards(g) == 2^g.bits
Backing(g) == NV(g) * NShards(g)

\* local design: fuse -- v0 in segment f < l, v1 in f + 1, v2 in f + 2;
\*               mwhc -- one vertex in each third
LocalDesign(g, e) ==
    IF g.kind = "fuse"
    THEN LET f == e[1] \div 2^g.s
         IN  /\ f < g.l
             /\ e[2] \div 2^g.s = f + 1
             /\ e[3] \div 2^g.s = f + 2
    ELSE /\ e[1] < g.t
         /\ g.t <= e[2] /\ e[2] < 2 * g.t
         /\ 2 * g.t <= e[3] /\ e[3] < 3 * g.t

\* global design: the local edge shifted to the slice of the shard
Design(g, sh, e) ==
    /\ sh < NShards(g)
    /\ \A i \in 1 .. 3 : e[i] >= sh * NV(g)
    /\ LocalDesign(g, [i \in 1 .. 3 |-> e[i] - sh * NV(g)])

\* the property, for one edge
Distinct3(e)      == e[1] # e[2] /\ e[1] # e[3] /\ e[2] # e[3]
InArray(g, e)     == \A i \in 1 .. 3 : e[i] < Backing(g)
InSlice(g, sh, e) == \A i \in 1 .. 3 : sh * NV(g) <= e[i] /\ e[i] < (sh + 1) * NV(g)
Contract(g, sh, e) == Distinct3(e) /\ InArray(g, e) /\ InSlice(g, sh, e)

(***************************************************************************)
(* Scaled transcriptions of the edge functions: words of B bits (B even),  *)
(* fixed-point inversion floor(x * n / 2^B).  H = B / 2 plays the role of  *)
(* the 32-bit halves.                                                      *)
(***************************************************************************)
FixInv(x, n, B)  == (x * n) \div 2^B
LowBits(x, k)    == x % 2^k
RotL(x, k, B)    == ((x * 2^k) % 2^B) + (x \div 2^(B - k))
TopBits(x, k, B) == x \div 2^(B - k)

\* edge_1(shard, log2_seg_size, l, [sig])
Edge1(sh, s, l, x, B) ==
    LET start == (sh * (l + 2)) * 2^s
        v0 == start + FixInv(x, l * 2^s, B)
        v1 == (v0 + 2^s) ^^ LowBits(x, s)
        v2 == (v1 + 2^s) ^^ LowBits(x \div 2^s, s)
    IN  <<v0, v1, v2>>

\* edge_2(log2_seg_size, l, [x, y])
Edge2(s, l, x, y, B) ==
    LET H  == B \div 2
        v0 == FixInv(x, l * 2^s, B)
        v1 == (v0 + 2^s) ^^ LowBits(y \div 2^H, s)
        v2 == (v1 + 2^s) ^^ LowBits(y % 2^H, s)
    IN  <<v0, v1, v2>>

\* edge_2_big(shard, shard bits, log2_seg_size, l, [x, y]): the first word is
\* rotated left by the shard bits (rotate_right(63 - bits).rotate_right(1))
Edge2Big(sh, bits, s, l, x, y, B) ==
    LET H  == B \div 2
        start == (sh * (l + 2)) * 2^s
        v0 == start + FixInv(RotL(x, bits, B), l * 2^s, B)
        v1 == (v0 + 2^s) ^^ LowBits(y \div 2^H, s)
        v2 == (v1 + 2^s) ^^ LowBits(y % 2^H, s)
    IN  <<v0, v1, v2>>

\* mwhc::edge(shard, seg_size, [x, y]) with half-word fixed point
MwhcEdge(sh, t, x, y, B) ==
    LET H == B \div 2
        start == sh * t * 3
    IN  <<FixInv(x % 2^H, t, H) + start,
          FixInv(y \div 2^H, t, H) + start + t,
          FixInv(y % 2^H, t, H) + start + 2 * t>>

\* Mwhc3NoShards::local_edge
MwhcEdgeNS(t, x, y, B) == <<FixInv(x, t, B), FixInv(y, t, B) + t, FixInv(x ^^ y, t, B) + 2 * t>>

\* what each implementation computes for the signature <<x, y>> in geometry g:
\* [sh, e (global), le (local edge of the local signature), sk (sort key)]
Code(lg, w, g, x, y, B) ==
    LET sh == IF Sharding(lg) THEN TopBits(x, g.bits, B) ELSE 0
    IN  CASE lg = "FuseLge3Shards" ->
                [sh |-> sh, e |-> Edge1(sh, g.s, g.l, y, B), le |-> Edge1(0, g.s, g.l, y, B),
                 sk |-> FixInv(y, g.l, B)]
          [] lg = "FuseLge3FullSigs" ->
                [sh |-> sh, e |-> Edge2Big(sh, g.bits, g.s, g.l, x, y, B),
                 le |-> Edge2Big(0, g.bits, g.s, g.l, x, y, B),
                 sk |-> FixInv(RotL(x, g.bits, B) \div 2^(B \div 2), g.l, B \div 2)]
          [] lg = "FuseLge3NoShards" /\ w = 2 ->
                [sh |-> 0, e |-> Edge2(g.s, g.l, x, y, B), le |-> Edge2(g.s, g.l, x, y, B),
                 sk |-> FixInv(x, g.l, B)]
          [] lg = "FuseLge3NoShards" /\ w = 1 ->
                [sh |-> 0, e |-> Edge1(0, g.s, g.l, x, B), le |-> Edge1(0, g.s, g.l, x, B),
                 sk |-> FixInv(x, g.l, B)]
          [] lg = "Mwhc3Shards" ->
                [sh |-> sh, e |-> MwhcEdge(sh, g.t, x, y, B), le |-> MwhcEdge(0, g.t, x, y, B), sk |-> 0]
          [] lg = "Mwhc3NoShards" ->
                [sh |-> 0, e |-> MwhcEdgeNS(g.t, x, y, B), le |-> MwhcEdgeNS(g.t, x, y, B), sk |-> 0]

NumSortKeys(g) == IF g.kind = "fuse" THEN g.l ELSE 1

\* the code's answer is a design edge, the global edge is the shifted local
\* one, and the sort key is in range
CodeOK(g, r) ==
    /\ Design(g, r.sh, r.e)
    /\ LocalDesign(g, r.le)
    /\ \A i \in 1 .. 3 : r.e[i] = r.le[i] + r.sh * NV(g)
    /\ r.sk < NumSortKeys(g)

(***************************************************************************)
(* 2. Contract on the events of the real code (wide numbers)               *)
(***************************************************************************)
WPow2(k) == [i \in 1 .. (k \div 15) |-> 0] \o <<2^(k % 15)>>

\* a >> k
WShr(a, k) ==
    LET q == k \div 15
        r == k % 15
        m == Len(a) - q
    IN  IF m <= 0 THEN <<>>
        ELSE WNorm([i \in 1 .. m |-> (a[i + q] \div 2^r) + (WLimb(a, i + q + 1) % 2^r) * 2^(15 - r)])

\* the number whose set bits are the positions in S
WOfBits(S) ==
    IF S = {} THEN <<>>
    ELSE LET top == CHOOSE p \in S : \A q \in S : q <= p
             Limb(i) == LET T == {p \in S : p \div 15 = i - 1}
                            F[U \in SUBSET T] == IF U = {} THEN 0
                                                 ELSE LET p == CHOOSE z \in U : TRUE
                                                      IN  2^(p % 15) + F[U \ {p}]
                        IN  F[T]
         IN  WNorm([i \in 1 .. (top \div 15 + 1) |-> Limb(i)])

WIsLimbs(a) == /\ \A i \in DOMAIN a : a[i] \in 0 .. WBase - 1
               /\ (a # <<>> => a[Len(a)] # 0)

\* Sig::high_bits: the top `bits` bits of the first signature word
HighBits(word, bits) == WOfBits({p - (64 - bits) : p \in {q \in SERng(word) : q >= 64 - bits}})

SigOK(sig, w) == Len(sig) = w /\ \A k \in DOMAIN sig : \A i \in DOMAIN sig[k] : sig[k][i] \in 0 .. 63

W3 == <<3>>

\* documented capacity: with 32-bit vertices a shard of 3 * 10^9 keys or more
\* need not be representable (c >= 1.105; 2^32 / 1.105 < 3.9 * 10^9)
Cap32 == WMul(WOfNat(30000), WOfNat(100000))
\* no logic is documented beyond 10^16 keys (the number of segments is a u32):
\* from 2^50 keys on any set-up may refuse
CapAny == WPow2(50)

(***************************************************************************)
(* State record st = [logic, sigw, phase, shardBits, nkeys, nv, nsk, geom].*)
(* Every handler returns [why, st]: the first reason for which the event   *)
(* is not admissible (or "ok") and the next state.                         *)
(***************************************************************************)
NewState(lg, w) == [logic |-> lg, sigw |-> w, phase |-> "new", shardBits |-> 0, nkeys |-> <<>>,
                    nv |-> <<>>, nsk |-> <<>>, geom |-> [kind |-> "unknown"]]

\* projected state logged with every set-up / reload / state event
ProjWhy(ev, st, bits) ==
    IF ev.bits # bits THEN "shard-bits"
    ELSE IF ev.bits >= 64 THEN "shard-bits-64"
    ELSE IF ev.nshards # WPow2(ev.bits) THEN "num-shards"
    ELSE IF ~Sharding(st.logic) /\ ev.bits # 0 THEN "unsharded-logic-shards"
    ELSE IF ev.blen # WMul(ev.nv, ev.nshards) THEN "backing-length"
    ELSE "ok"

\* geometry of a shard as described by the logic (Display) against the sizes
GeomWhy(ev, st) ==
    LET g == ev.geom
    IN  IF g.kind = "unknown" THEN "ok"
        ELSE IF g.kind # KindOf(st.logic) THEN "geometry-kind"
        ELSE IF g.kind = "fuse"
        THEN IF ev.nv # WMul(g.segs, WPow2(g.s)) THEN "fuse-num-vertices"
             ELSE IF WLess(g.segs, W3) THEN "fuse-segments"
             ELSE IF ev.nsk # WSub(g.segs, <<2>>) THEN "fuse-sort-keys"
             ELSE "ok"
        ELSE IF ev.nv # g.per THEN "mwhc-num-vertices"
             ELSE IF ev.nsk # <<1>> THEN "mwhc-sort-keys"
             ELSE "ok"

ShardsEff(ev, st) ==
    IF ev.out = "panic" /\ st.phase = "wild" THEN [why |-> "ok", st |-> st]
    ELSE IF ev.out # "ret" THEN [why |-> "outcome", st |-> st]
    ELSE LET w == IF st.phase = "wild" THEN "ok"      \* stale graph parameters of a refused / meaningless set-up
                  ELSE ProjWhy(ev, st, ev.bits)
         IN  [why |-> w,
              st  |-> [st EXCEPT !.phase = "sharded", !.shardBits = ev.bits, !.nkeys = ev.n]]

\* The set-ups of the property are those reachable the way VBuilder::try_seed
\* makes them: set_up_shards(n, eps), then set_up_graphs(n, max_shard) for the
\* same n with max_shard the size of the largest of 2^shardBits shards holding
\* n keys, i.e. ceil(n / 2^shardBits) <= max_shard <= n; n below 2^50 (no
\* logic is documented beyond; in release builds the arithmetic of a set-up
\* beyond that wraps instead of panicking).
InSetupDomain(ev, st) ==
    /\ st.phase \in {"sharded", "ready"}
    /\ ev.n = st.nkeys
    /\ WLess(ev.n, CapAny)
    /\ (Sharding(st.logic) =>
          /\ WLeq(ev.msv, ev.n)
          /\ WLeq(ev.n, WMul(ev.msv, WPow2(st.shardBits))))

GraphsEff(ev, st) ==
    IF ev.out = "panic"
    THEN \* admissible when documented (the vertex type cannot represent the
         \* shard) or outside the domain (C12: a panic is not an abort)
         [why |-> IF ~InSetupDomain(ev, st) THEN "ok"
                  ELSE IF Vertex32(st.logic, st.sigw) /\ (WLeq(Cap32, ev.msv) \/ WLeq(Cap32, ev.n)) THEN "ok"
                  ELSE "outcome",
          st  |-> [st EXCEPT !.phase = "wild"]]
    ELSE IF ev.out # "ret" THEN [why |-> "outcome", st |-> st]
    ELSE IF ~InSetupDomain(ev, st)
    THEN \* outside the domain nothing is required of the values (C12 only)
         [why |-> "ok", st |-> [st EXCEPT !.phase = "wild"]]
    ELSE LET w1 == ProjWhy(ev, st, st.shardBits)
             w2 == GeomWhy(ev, st)
         IN  [why |-> IF w1 # "ok" THEN w1 ELSE w2,
              st  |-> [st EXCEPT !.phase = "ready", !.nv = ev.nv, !.nsk = ev.nsk, !.geom = ev.geom]]

\* reload (C15) and `state`: nothing changes
SameEff(ev, st) ==
    IF ev.out \in {"ret", "panic"} /\ st.phase = "wild" /\ ~("ioerr" \in DOMAIN ev) THEN [why |-> "ok", st |-> st]
    ELSE IF ev.out # "ret" THEN [why |-> "outcome", st |-> st]
    ELSE IF "ioerr" \in DOMAIN ev THEN [why |-> "reload-failed", st |-> st]
    ELSE LET w == ProjWhy(ev, st, st.shardBits)
         IN  [why |-> IF w # "ok" THEN w
                      ELSE IF st.phase = "ready" /\ (ev.nv # st.nv \/ ev.nsk # st.nsk \/ ev.geom # st.geom)
                      THEN "state-changed" ELSE "ok",
              st  |-> st]

\* C11: a logic is a few parameters -- at most two machine words whatever n
MemBound == 16
MemEff(ev, st) ==
    [why |-> IF ev.out # "ret" THEN "outcome" ELSE IF ev.res > MemBound THEN "mem-size" ELSE "ok", st |-> st]

\* the segment (fuse) of a local vertex
Seg(v, g) == WShr(v, g.s)

LocalDesignW(st, le) ==
    LET g == st.geom
    IN  IF g.kind = "fuse"
        THEN LET f == Seg(le[1], g)
             IN  /\ WLess(f, WSub(g.segs, <<2>>))
                 /\ Seg(le[2], g) = WSucc(f)
                 /\ Seg(le[3], g) = WSucc(WSucc(f))
        ELSE IF g.kind = "mwhc"
        THEN \* thirds: 3 * v0 < nv <= 3 * v1 < 2 * nv <= 3 * v2 < 3 * nv
             /\ WLess(WMul(le[1], W3), st.nv)
             /\ WLeq(st.nv, WMul(le[2], W3)) /\ WLess(WMul(le[2], W3), WMul(st.nv, <<2>>))
             /\ WLeq(WMul(st.nv, <<2>>), WMul(le[3], W3)) /\ WLess(le[3], st.nv)
        ELSE TRUE

EdgeWhy(ev, st) ==
    IF ~SigOK(ev.sig, st.sigw) THEN "script-signature"
    ELSE IF st.phase # "ready" THEN (IF ev.out \in {"ret", "panic"} THEN "ok" ELSE "outcome")   \* C12 only
    ELSE IF ev.out # "ret" THEN "outcome"
    ELSE LET e    == ev.edge
             le   == ev.ledge
             sh   == HighBits(ev.sig[1], st.shardBits)
             base == WMul(ev.sh, st.nv)
         IN  IF \E i \in 1 .. 3 : ~WIsLimbs(e[i]) \/ ~WIsLimbs(le[i]) THEN "log-format"
             ELSE IF ev.sh # sh THEN "shard-not-high-bits"
             ELSE IF ev.hb # sh THEN "sig-high-bits"
             ELSE IF \E i \in 1 .. 3 : e[i] # WAdd(le[i], base) THEN "edge-not-shifted-local-edge"
             ELSE IF e[1] = e[2] \/ e[1] = e[3] \/ e[2] = e[3] THEN "edge-not-distinct"
             ELSE IF \E i \in 1 .. 3 : ~WLess(le[i], st.nv) THEN "edge-outside-slice"
             ELSE IF \E i \in 1 .. 3 : ~WLess(e[i], WMul(st.nv, WPow2(st.shardBits))) THEN "edge-outside-array"
             ELSE IF ~WLess(ev.sk, st.nsk) THEN "sort-key"
             ELSE IF ~LocalDesignW(st, le) THEN "design"
             ELSE "ok"

\* a batch of edge observations around a point where the first vertex changes
\* (the executor finds the point by binary search on edge(); every item is
\* judged as an `edge` event)
BoundaryWhy(ev, st) ==
    IF ~SigOK(ev.sig, st.sigw) THEN "script-signature"
    ELSE IF st.phase # "ready" THEN (IF ev.out \in {"ret", "panic"} THEN "ok" ELSE "outcome")
    ELSE IF ev.out # "ret" THEN "outcome"
    ELSE LET bad == {k \in 1 .. Len(ev.items) : EdgeWhy(ev.items[k], st) # "ok"}
         IN  IF bad = {} THEN "ok" ELSE EdgeWhy(ev.items[CHOOSE k \in bad : \A j \in bad : k <= j], st)

Eff(ev, st) ==
    CASE ev.op = "shards"   -> ShardsEff(ev, st)
      [] ev.op = "graphs"   -> GraphsEff(ev, st)
      [] ev.op \in {"reload", "state"} -> SameEff(ev, st)
      [] ev.op = "mem_size" -> MemEff(ev, st)
      [] ev.op = "edge"     -> [why |-> EdgeWhy(ev, st), st |-> st]
      [] ev.op = "boundary" -> [why |-> BoundaryWhy(ev, st), st |-> st]
      [] OTHER -> [why |-> "unknown-op", st |-> st]
=============================================================================
