----------------------------- MODULE MC_EliasFano -----------------------------
(***************************************************************************)
(* Bounded instances of EliasFano (the abstract specification).            *)
(*                                                                         *)
(*  Mode = "small"    exhaustive: every builder history over a small value *)
(*                    menu (push accepted / rejected, extend, concurrent   *)
(*                    set in any index order), every selection back-end    *)
(*                    class, every query; invariants of the abstract state *)
(*                    and: the binary-search forms used by trace           *)
(*                    validation accept exactly the order-theoretic        *)
(*                    definitions (DefsAgree).                             *)
(*  Mode = "builders" export: every history of at most n + Extra pushes    *)
(*                    over the values {0,1,2,u-1,u,u+1} (rejected pushes   *)
(*                    included, u up to 2^64-1) that ends with n accepted  *)
(*                    values, followed by a build and an observer battery. *)
(*  Mode = "queries"  export: every non-decreasing sequence of at most     *)
(*                    MaxN values in a window of 5 consecutive numbers     *)
(*                    placed at 0, around 2^32 and at the top of usize,    *)
(*                    with every query in and around the window.           *)
(*  Mode = "space"    every (n, u) <= (MaxSN, MaxSU): the sizes allocated  *)
(*                    by the code (transcribed) are within the documented  *)
(*                    bound of C11 as MemSizeOK states it; properties of   *)
(*                    the fixed-point logarithm.                           *)
(***************************************************************************)
EXTENDS EliasFano, TLC, Json, SequencesExt

CONSTANTS Mode, MaxN, Extra, MaxSN, MaxSU

VARIABLES S, xs, hist, sn, su
mvars == <<S, xs, hist, sn, su>>

WMaxU  == <<32767, 32767, 32767, 32767, 15>>        \* 2^64 - 1
W2p63  == <<0, 0, 0, 0, 8>>
W2p32  == <<0, 0, 4>>

\* ----- menus ------------------------------------------------------------
UMenu == IF Mode = "small" THEN {WZero, <<1>>, <<3>>, W2p32, WMaxU}
         ELSE {WZero, <<1>>, <<2>>, <<5>>, <<70>>, W2p32, W2p63, WMaxU}

\* {0, 1, 2, u-1, u, u+1} (inside usize)
VMenu(u) == {WZero, <<1>>, <<2>>, u}
            \cup (IF u # WZero THEN {WPred(u)} ELSE {})
            \cup (IF u # WMaxU THEN {WSucc(u)} ELSE {})

QMenu(u, X) == VMenu(u) \cup {WMaxU, WPred(WMaxU)}
               \cup {X[i] : i \in 1 .. Len(X)}
               \cup {WSucc(X[i]) : i \in {j \in 1 .. Len(X) : X[j] # WMaxU}}
               \cup {WPred(X[i]) : i \in {j \in 1 .. Len(X) : X[j] # WZero}}

KindSeq  == IF Mode = "small" THEN <<"plain", "seq", "dict", "seqdict">>
            ELSE <<"seq", "seqdict", "seqdict_adapt", "seqdict_c", "dict", "plain", "seq_c", "seqdict_inv">>
KindMenu == {KindSeq[i] : i \in 1 .. Len(KindSeq)}
WinKinds == <<"seqdict", "dict", "seqdict_c", "seqdict_adapt">>

Ops(u) ==
    { [op |-> "push", x |-> v] : v \in VMenu(u) }
    \cup (IF Mode = "small"
          THEN { [op |-> "extend", xs |-> <<a, b>>] : a \in VMenu(u), b \in VMenu(u) }
               \cup { [op |-> "extend", xs |-> <<>>] }
          ELSE {})

COps(n, u) == { [op |-> "cset", i |-> i, x |-> v] : i \in 0 .. n, v \in VMenu(u) }

\* a cheap mixing function (rotates the back-ends over the exported histories)
RECURSIVE Mix(_)
Mix(X) == IF X = <<>> THEN 0
          ELSE (IF X[1] = <<>> THEN 0 ELSE X[1][1]) + 3 * Len(X) + Mix(Tail(X))

\* ----- the abstract machine ---------------------------------------------
Apply(op) ==
    LET x == Eff(op, S, xs) IN
    /\ S' = x.st
    /\ xs' = CASE x.xu[1] = "same" -> xs
               [] x.xu[1] = "op"   -> op.xs
               [] x.xu[1] = "app"  -> Append(xs, x.xu[2])
               [] x.xu[1] = "val"  -> x.xu[2]
    /\ hist' = IF Mode = "small" THEN hist ELSE Append(hist, op)

MCInit == S = EFNone /\ xs = <<>> /\ hist = <<>> /\ sn = 0 /\ su = 0

Start == /\ Mode \in {"small", "builders"}
         /\ S.form = "none" /\ hist = <<>>
         /\ \E n \in 0 .. MaxN : \E u \in UMenu :
               \E o \in (IF Mode = "small" THEN {"new", "cnew"} ELSE {"new"}) :
                  Apply([op |-> o, n |-> n, u |-> u])
         /\ UNCHANGED <<sn, su>>

\* one more builder call: accepted or rejected (a rejected extend abandons the builder)
Feed == /\ S.form \in {"builder", "cbuilder"}
        /\ (Mode = "small" \/ Len(hist) <= S.n + Extra)
        /\ \E op \in (IF S.form = "builder" THEN Ops(S.u) ELSE COps(S.n, S.u)) :
              /\ "na" \notin Eff(op, S, xs).outs
              /\ Apply(op)
        /\ UNCHANGED <<sn, su>>

Finish == /\ S.form \in {"builder", "cbuilder"}
          /\ \E k \in KindMenu :
                LET op == [op |-> "build", kind |-> k] IN
                /\ Eff(op, S, xs).outs = {"ret"}
                \* exported histories rotate the back-ends instead of multiplying by them
                /\ (Mode = "small" \/ k = KindSeq[((Len(hist) + Mix(xs) + Len(S.u)) % Len(KindSeq)) + 1])
                /\ Apply(op)
          /\ UNCHANGED <<sn, su>>

\* queries leave the state unchanged (checked by AskIsPure in every state)
AskMenu == { [op |-> o, q |-> q] : o \in {"index_of", "contains", "succ", "succ_strict", "pred", "pred_strict"},
                                   q \in QMenu(S.u, xs) }
           \cup { [op |-> "get", i |-> i] : i \in 0 .. (S.n + 1) }
           \cup { [op |-> "iter_from", k |-> k] : k \in 0 .. (S.n + 2) }
           \cup { [op |-> o] : o \in {"len", "iter", "into_iter", "mem_size"} }
           \cup { [op |-> "reload", mode |-> m] : m \in {"full", "eps", "mmap"} }

Ask == /\ Mode = "small" /\ S.form = "ef"
       /\ \E op \in AskMenu : Apply(op)
       /\ UNCHANGED <<sn, su>>

\* ----- query export: sequences in a window --------------------------------
RECURSIVE WinSeqs(_, _, _)
\* non-decreasing sequences of length n over base+lo .. base+4
WinSeqs(n, lo, base) ==
    IF n = 0 THEN {<<>>}
    ELSE UNION {{<<WAdd(base, WOfNat(d))>> \o s : s \in WinSeqs(n - 1, d, base)} : d \in lo .. 4}

Bases == {WZero, <<32766, 32767, 3>>, WSub(WMaxU, <<4>>)}      \* 0, 2^32 - 2, 2^64 - 5

Window == /\ Mode = "queries" /\ S.form = "none" /\ hist = <<>>
          /\ \E b \in Bases : \E n \in 0 .. MaxN : \E X \in WinSeqs(n, 0, b) :
             \E k \in {WinKinds[i] : i \in 1 .. 4} :
             \E dec \in {0, 1} :     \* declared bound: the top of the window, or (From) the last element
                /\ dec = 1 \/ X # <<>>
                /\ k = WinKinds[((Mix(X) + dec) % 4) + 1]
                /\ IF dec = 0
                   THEN /\ Apply([op |-> "from", xs |-> X, kind |-> k])
                   ELSE /\ S' = EFState("ef", n, WAdd(b, <<4>>), k, <<>>, FALSE)
                        /\ xs' = X
                        /\ hist' = <<[op |-> "new", n |-> n, u |-> WAdd(b, <<4>>)],
                                     [op |-> "extend", xs |-> X], [op |-> "build", kind |-> k]>>
          /\ UNCHANGED <<sn, su>>

\* ----- space -------------------------------------------------------------
RECURSIVE MP2(_)
MP2(k) == IF k = 0 THEN 1 ELSE 2 * MP2(k - 1)
RECURSIVE MFloorLg(_)
MFloorLg(x) == IF x <= 1 THEN 0 ELSE 1 + MFloorLg(x \div 2)
MCodeL(n, u) == LET q == u \div (IF n = 0 THEN 1 ELSE n) IN IF q = 0 THEN 0 ELSE MFloorLg(q)
CeilDiv(a, b) == (a + b - 1) \div b

\* bytes mem_size reports for the base structure: 11 words of fields, the
\* lower-bits words (at least one) and the upper-bits words
CodeBytes(n, u, l) ==
    LET loww  == IF CeilDiv(n * l, 64) = 0 THEN 1 ELSE CeilDiv(n * l, 64)
        highw == CeilDiv(n + (u \div MP2(l)) + 1, 64)
    IN  8 * (11 + loww + highw)

SpaceStep == /\ Mode = "space" /\ sn = 0 /\ su = 0 /\ hist = <<>>
             /\ \E n \in 0 .. MaxSN : \E u \in 0 .. MaxSU : sn' = n /\ su' = u
             /\ hist' = <<"picked">>
             /\ UNCHANGED <<S, xs>>

MCNext == Start \/ Feed \/ Finish \/ Ask \/ Window \/ SpaceStep
MCSpec == MCInit /\ [][MCNext]_mvars

\* ----- invariants ---------------------------------------------------------
StateOK == EFStateOK(S, xs)

\* a panic leaves everything unchanged (an abandoned extend aside), a query
\* never changes anything
PanicsAreClean ==
    S.form = "builder" =>
        \A op \in Ops(S.u) :
            LET x == Eff(op, S, xs) IN
            (x.outs = {"panic"} /\ op.op = "push") => (x.st = S /\ x.xu = <<"same">>)
AskIsPure ==
    S.form = "ef" => \A op \in AskMenu : LET x == Eff(op, S, xs) IN x.st = S /\ x.xu = <<"same">>

\* a push is accepted iff in order, within the bound and not beyond n
PushRule ==
    S.form = "builder" =>
        \A v \in VMenu(S.u) :
            (Eff([op |-> "push", x |-> v], S, xs).outs = {"ret"})
               <=> (Len(xs) < S.n /\ WLeq(v, S.u) /\ (xs = <<>> \/ WLeq(xs[Len(xs)], v)))

\* the binary-search predicates accept exactly the order-theoretic sets
Cands(X, q) == {<<>>} \cup { <<[i |-> i, v |-> v]>> : i \in 0 .. Len(X),
                                                     v \in {X[j] : j \in 1 .. Len(X)} \cup {q} }
DefsAgree ==
    S.form = "ef" =>
        \A q \in QMenu(S.u, xs) :
            /\ \A r \in {<<>>} \cup {<<i>> : i \in 0 .. Len(xs)} :
                  IndexOfOK(xs, q, r) <=> (r \in IndexOfDef(xs, q))
            /\ \A strict \in BOOLEAN : \A r \in Cands(xs, q) :
                  /\ SuccOK(xs, q, strict, r) <=> (r \in SuccDef(xs, q, strict))
                  /\ PredOK(xs, q, strict, r) <=> (r \in PredDef(xs, q, strict))
            /\ \A strict \in BOOLEAN :
                  /\ SuccExists(xs, q, strict) <=> (<<>> \notin SuccDef(xs, q, strict))
                  /\ PredExists(xs, q, strict) <=> (<<>> \notin PredDef(xs, q, strict))

\* C11: what the code allocates is within the documented bound (+ constant)
SpaceOK ==
    (Mode = "space" /\ hist # <<>>) =>
        /\ MemSizeOK(CodeBytes(sn, su, MCodeL(sn, su)), sn, WOfNat(su))
        \* the fixed-point logarithm brackets the true one
        /\ su >= 1 =>
              /\ LgDown8(WOfNat(su)) <= 256 * MFloorLg(su) + 255
              /\ LgDown8(WOfNat(su)) >= 256 * MFloorLg(su)
              /\ LgUp8(WOfNat(su)) > LgDown8(WOfNat(su))
              /\ LgUp8(WOfNat(su)) <= LgDown8(WOfNat(su)) + 4
              /\ (su = MP2(MFloorLg(su)) => LgDown8(WOfNat(su)) = 256 * MFloorLg(su)
                                            /\ LgUp8(WOfNat(su)) = 256 * MFloorLg(su) + 1)
              /\ LgDown8(WOfNat(su)) <= LgDown8(WOfNat(su + 1))
              /\ LgUp8(WOfNat(su)) <= LgUp8(WOfNat(su + 1))

\* ----- export -------------------------------------------------------------
QueryOps6 == <<"index_of", "contains", "succ", "succ_strict", "pred", "pred_strict">>
QueryOps3 == <<"index_of", "succ", "pred_strict">>
Battery ==
    LET n  == Len(xs)
        FlattenQ(Q, O) == FlattenSeq([j \in 1 .. Len(Q) |-> [o \in 1 .. Len(O) |-> [op |-> O[o], q |-> Q[j]]]])
    IN  IF Mode = "queries"
        THEN <<[op |-> "len"], [op |-> "iter"], [op |-> "into_iter"]>>
             \o [i \in 1 .. (n + 2) |-> [op |-> "get", i |-> i - 1]]
             \o [k \in 1 .. (n + 3) |-> [op |-> "iter_from", k |-> k - 1, via |-> IF k % 2 = 0 THEN "trait" ELSE "method"]]
             \o FlattenQ(SetToSeq(QMenu(S.u, xs)), QueryOps6)
             \o <<[op |-> "mem_size"]>>
        ELSE <<[op |-> "len"], [op |-> "iter"]>>
             \o [i \in 1 .. (n + 1) |-> [op |-> "get", i |-> i - 1]]
             \o <<[op |-> "iter_from", k |-> 0, via |-> "method"], [op |-> "iter_from", k |-> n, via |-> "trait"],
                  [op |-> "iter_from", k |-> n + 1, via |-> "method"]>>
             \o FlattenQ(SetToSeq(VMenu(S.u)), QueryOps3)
             \o <<[op |-> "mem_size"]>>

Emit == (Mode \in {"builders", "queries"} /\ S.form = "ef") =>
            PrintT(<<"SCRIPT", ToJson([fam |-> "ef", src |-> "tlc", ops |-> hist \o Battery])>>)

\* a builder that still misses exactly one value is finished anyway
\* (and so is, at full length, every history that never completed: several
\* rejected pushes, pushes after a rejected one)
EmitShort == (Mode = "builders" /\ S.form = "builder" /\
              ((Len(xs) + 1 = S.n /\ Len(hist) = S.n + Extra) \/ (Len(xs) < S.n /\ Len(hist) = S.n + Extra + 1))) =>
            PrintT(<<"SCRIPT", ToJson([fam |-> "ef", src |-> "tlc",
                     ops |-> hist \o <<[op |-> "build", kind |-> KindSeq[(Mix(xs) % Len(KindSeq)) + 1]],
                                       [op |-> "len"], [op |-> "iter"], [op |-> "get", i |-> 0],
                                       [op |-> "get", i |-> Len(xs)], [op |-> "iter_from", k |-> Len(xs)]>>])>>)
=============================================================================
