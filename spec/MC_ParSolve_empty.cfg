\* NOT part of any plan: empty shards among several shards (excluded by the check of the largest
\* shard). TLC must report a violation of OkSolvesAll: later shards are never solved.
SPECIFICATION PSSpec
CONSTANTS
  MaxK = 2
  S = 3
  EmptyPolicy = "any"
INVARIANTS TypeOK OkSolvesAll

CHECK_DEADLOCK TRUE
