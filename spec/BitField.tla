------------------------------ MODULE BitField ------------------------------
(***************************************************************************)
(* sux::bits::BitFieldVec / AtomicBitFieldVec as a Vec of w-bit values     *)
(* (properties C05, C10, C14 and the family's part of C11, C12, C15).      *)
(*                                                                         *)
(* Abstract state: `abs`, the sequence of values a plain Vec subjected to  *)
(* the same operations would hold; a value is the set of its 1 bits, a     *)
(* subset of 0 .. width-1 (so u128 costs nothing).  Design state: the      *)
(* backend, `nw` words of W bits, of which `store` is the set of positions *)
(* that are 1 (position p is bit p % W of word p \div W) -- including the  *)
(* positions at or beyond Len(abs) * width, which the structure must       *)
(* neither trust nor modify (C14).  Element i occupies the positions       *)
(* i*width .. (i+1)*width - 1.                                             *)
(*                                                                         *)
(* The word type is a variable (`wt`), not a constant, so that one trace   *)
(* specification validates executions of all six instantiations; W is      *)
(* derived from it.  "u4" is a fictitious 4-bit word used only by the      *)
(* exhaustive design configuration.                                        *)
(*                                                                         *)
(* Every public operation is an operator  Eff(op, g)  giving, for the      *)
(* operation record `op` (same field names as the JSON scripts/traces),    *)
(* the admissible outcome ("ret"/"panic"/"na"), the result and the next    *)
(* state.  `g` = [nw, garb] is the growth choice: how many words the       *)
(* backend has afterwards and what the bits of freshly appended words      *)
(* beyond the new contents are.  C05/C10/C14 do not constrain it (only     *)
(* that the backend is large enough); C11 does, through `mem_size`.        *)
(*                                                                         *)
(* The second half of the module is the design: transcriptions of the      *)
(* word-level algorithms of bit_field_vec.rs (two-word get/set, windowed   *)
(* forward and reverse iterators, equality, reset, the buffered            *)
(* apply_in_place pass, chunk views, the unaligned read and the six-way    *)
(* copy) over words represented as sets of bit positions, with every       *)
(* word access recorded (NoOOB) and every shift amount checked (< W: a     *)
(* larger amount is an overflow panic in debug builds and a wrapped shift  *)
(* in release builds).  The invariants state that each of them equals the  *)
(* abstract operation.                                                     *)
(***************************************************************************)
EXTENDS Integers, Sequences, FiniteSets, SequencesExt

VARIABLES wt,        \* word type: "u8" "u16" "u32" "u64" "u128" "usize" ("u4": design only)
          width,     \* bit width of the fields, 0 .. W
          abs,       \* the Vec of values (each a subset of 0 .. width-1)
          store,     \* set of backend bit positions that are 1
          nw,        \* number of backend words
          form,      \* which Rust type currently holds the vector
          built      \* C11 bookkeeping: "exact" / "padded" while the vector has only been
                     \* built and grown (padded: by new_unaligned), "no" otherwise
bfvars == <<wt, width, abs, store, nw, form, built>>

WOf(t) == CASE t = "u4" -> 4 [] t = "u8" -> 8 [] t = "u16" -> 16 [] t = "u32" -> 32
            [] t = "u64" -> 64 [] t = "usize" -> 64 [] t = "u128" -> 128
W         == WOf(wt)
HasAtomic == wt # "u128"                   \* there is no AtomicU128

Forms == {"none", "vec", "boxed", "eps", "mmap", "atomic", "atomic_boxed"}
HUGE  == 2147483647                        \* sentinel of the trace format for integers >= 2^31-1

Low(n)        == 0 .. (n - 1)
Rng(a, b)     == a .. (b - 1)               \* [a, b)
CeilDiv(a, b) == IF a = 0 THEN 0 ELSE (a - 1) \div b + 1      \* (no overflow for huge b)
MinOf(a, b)   == IF a <= b THEN a ELSE b
MaxOf(a, b)   == IF a >= b THEN a ELSE b
BLen          == Len(abs)
BitLen        == BLen * width
Rep(n, v)     == [k \in 1 .. n |-> v]
Vals(s)       == [k \in 1 .. Len(s) |-> ToSet(s[k])]       \* JSON list of position lists -> values
\* contents of a raw backend read as n fields of wd bits
AbsOf(s, n, wd) == [k \in 1 .. n |-> {b \in Low(wd) : (k - 1) * wd + b \in s}]
\* positions of the 1 bits of the elements lo+1 .. hi of a, placed from element index lo
Enc(a, lo, hi, wd) == UNION {{(k - 1) * wd + b : b \in a[k]} : k \in (lo + 1) .. hi}
BitLength(v)  == IF v = {} THEN 0 ELSE 1 + CHOOSE b \in v : \A c \in v : c <= b

(***************************************************************************)
(* Invariants of the design state.                                         *)
(***************************************************************************)
TypeOK == /\ wt \in {"u4", "u8", "u16", "u32", "u64", "usize", "u128"}
          /\ width \in 0 .. W
          /\ nw \in Nat
          /\ form \in Forms
          /\ built \in {"exact", "padded", "no"}
          /\ store \subseteq Low(nw * W)
          /\ \A k \in 1 .. BLen : abs[k] \subseteq Low(width)
Refines     == abs = AbsOf(store, BLen, width)
LargeEnough == BitLen <= nw * W

(***************************************************************************)
(* Which operations exist on which form, and the preconditions of the      *)
(* methods documented as unchecked (the executor calls them only inside    *)
(* their preconditions and logs "na" otherwise).                           *)
(***************************************************************************)
Ctors    == {"new", "new_unaligned", "with_capacity", "raw", "a_new", "a_raw", "from_slice",
             "macro_empty", "macro_rep", "macro_list"}
VecOps   == {"push", "pop", "resize", "clear", "extend", "bit_width_vec", "mask_vec"}
ReadOps  == {"get", "get_unchecked", "len", "is_empty", "bit_width", "iter", "iter_from", "into_iter",
             "into_iter_from", "slice_iter", "iter_len", "uiter", "ruiter", "eq_other", "addr_of", "get_unaligned",
             "mem_size", "view_atomic_get"}
WriteOps == {"set", "set_unchecked", "mask", "reset", "par_reset", "apply", "apply_unchecked",
             "copy_to", "copy_from", "chunks", "view_atomic_set"}
AtomOps  == {"a_get", "a_get_unchecked", "a_set", "a_set_unchecked", "a_reset", "a_par_reset",
             "a_reset_dep", "a_len", "a_bit_width", "a_mask", "a_all"}
IntoOK(f, to) == <<f, to>> \in {<<"vec", "boxed">>, <<"boxed", "vec">>, <<"vec", "atomic">>,
                                <<"atomic", "vec">>, <<"boxed", "atomic_boxed">>,
                                <<"atomic_boxed", "boxed">>}

Fits(v)   == v \subseteq Low(width)
UFrom(op) == IF "from" \in DOMAIN op THEN op.from ELSE 0          \* forward unchecked iterator
RFrom(op) == IF "from" \in DOMAIN op THEN op.from ELSE BLen       \* reverse unchecked iterator

Pre(op) ==
    LET o == op.op IN
    CASE o \in {"get_unchecked", "a_get_unchecked"} -> op.i < BLen
      [] o \in {"set_unchecked", "a_set_unchecked"} -> op.i < BLen /\ Fits(ToSet(op.v))
      [] o = "uiter"  -> UFrom(op) > BLen \/ op.n <= BLen - UFrom(op)
      [] o = "ruiter" -> RFrom(op) > BLen \/ op.n <= RFrom(op)
      [] o = "copy_to"   -> op.olen * width <= op.onw * W /\ op.from <= BLen /\ op.to <= op.olen
      [] o = "copy_from" -> op.olen * width <= op.onw * W /\ op.from <= op.olen /\ op.to <= BLen
      [] o = "eq_other"  -> op.olen * op.owidth <= op.onw * W
      [] o \in {"view_atomic_get", "view_atomic_set"} -> HasAtomic
      [] OTHER -> TRUE

Applicable(op) ==
    LET o == op.op IN
    \/ o \in {"new", "new_unaligned", "with_capacity", "raw", "from_slice", "plain"}
    \/ o \in {"a_new", "a_raw"} /\ HasAtomic
    \/ o \in {"macro_empty", "macro_rep", "macro_list"} /\ wt = "usize"
    \/ o \in VecOps /\ form = "vec"
    \/ o = "clone" /\ form \in {"vec", "boxed"}
    \/ o \in ReadOps /\ form \in {"vec", "boxed", "eps", "mmap"} /\ Pre(op)
    \/ o \in WriteOps /\ form \in {"vec", "boxed"} /\ Pre(op)
    \/ o \in AtomOps /\ form \in {"atomic", "atomic_boxed"} /\ Pre(op)
    \/ o = "into" /\ IntoOK(form, op.to) /\ (op.to \in {"atomic", "atomic_boxed"} => HasAtomic)
    \/ o = "reload" /\ form \in {"vec", "boxed", "eps", "mmap"}
    \/ o = "raw_roundtrip" /\ form \in {"vec", "boxed", "atomic"}

(***************************************************************************)
(* Growth.                                                                 *)
(***************************************************************************)
\* the choice made by the code (Vec::push(0), Vec::resize(ceil(bits/W), 0), at least one word)
OneOr(n) == IF n = 0 THEN 1 ELSE n
CodeGrowth(op) ==
    LET o  == op.op
        wd == IF o \in Ctors /\ o # "from_slice" THEN op.width ELSE width
        base0 == IF wd = 0 THEN 1 ELSE 0        \* with_capacity: a word only for width zero
    IN  [nw |->
           CASE o \in {"new", "a_new"}      -> OneOr(CeilDiv(op.n * wd, W))
             [] o = "new_unaligned"         -> CeilDiv(op.n * wd, W) + 1
             [] o = "with_capacity"         -> base0
             [] o \in {"raw", "a_raw"}      -> op.rnw
             [] o = "from_slice"            ->
                  LET vs == Vals(op.vals)
                      mw == IF vs = <<>> THEN 0
                            ELSE BitLength(UNION {vs[k] : k \in 1 .. Len(vs)})
                  IN  OneOr(CeilDiv(Len(vs) * mw, W))
             [] o = "macro_empty"           -> 1
             [] o = "macro_rep"             -> MaxOf(base0, CeilDiv(op.n * wd, W))
             [] o = "macro_list"            -> MaxOf(base0, CeilDiv(Len(op.vals) * wd, W))
             [] o = "push"                  -> IF (BLen + 1) * width > nw * W THEN nw + 1 ELSE nw
             [] o = "extend"                -> MaxOf(nw, CeilDiv((BLen + Len(op.vals)) * width, W))
             [] o = "resize"                -> IF op.n > BLen /\ op.n * width > nw * W
                                               THEN CeilDiv(op.n * width, W) ELSE nw
             [] OTHER                       -> nw,
         garb  |-> {},
         \* from_slice: the widest value decides; UnsignedInt::len() is 1 for zero
         width |-> IF o = "from_slice"
                   THEN LET vs == Vals(op.vals) IN
                        IF vs = <<>> THEN 0
                        ELSE MaxOf(1, BitLength(UNION {vs[k] : k \in 1 .. Len(vs)}))
                   ELSE wd]

\* what any conforming implementation may choose: enough words, old words kept
GrowOK(op, a, wd, g) ==
    LET base == IF op.op \in Ctors \/ op.op = "reload" THEN 0 ELSE nw IN
    /\ g.nw >= base
    /\ g.nw * W >= Len(a) * wd
    \* new_unaligned promises a padding word after the contents (so that get_unaligned works)
    /\ (op.op = "new_unaligned" => g.nw >= CeilDiv(Len(a) * wd, W) + 1)
    /\ g.garb \subseteq Rng(MaxOf(base * W, Len(a) * wd), g.nw * W)

\* store after rewriting the elements from+1 .. Len(a) of a (width unchanged)
Written(a, from) == (store \ Rng(from * width, Len(a) * width)) \cup Enc(a, from, Len(a), width)

(***************************************************************************)
(* Result records.  rk says how the logged result is compared:             *)
(*   none  no result            int    equal to res (numbers, booleans)    *)
(*   val   a value              vals   a sequence of values                *)
(*   oval  Option<value>        copy   a cloned vector (CopyOK)            *)
(*   other the destination of copy_to   chunks  views and accesses         *)
(*   mem   a size in bytes bounded by res (C11)   any   unconstrained      *)
(* maypanic: a panic (state unchanged) is admitted as well.                *)
(***************************************************************************)
St(t, wd, a, s, n, f, b) == [wt |-> t, width |-> wd, abs |-> a, store |-> s, nw |-> n, form |-> f, built |-> b]
Same       == St(wt, width, abs, store, nw, form, built)
With(a, s) == St(wt, width, a, s, nw, form, built)
R(out, rk, res, st, mp) == [out |-> out, rk |-> rk, res |-> res, st |-> st, maypanic |-> mp]
Ret(rk, r)  == R("ret", rk, r, Same, FALSE)
Unit(s)     == R("ret", "none", <<>>, s, FALSE)
Panic       == R("panic", "none", <<>>, Same, FALSE)
NA          == R("na", "none", <<>>, Same, FALSE)

\* the function applied by apply_in_place, described by the event:
\* f(x) = (x op m) restricted to the width; xorprev uses the previous argument
BfSymDiff(a, b) == (a \ b) \cup (b \ a)
ApplyFw(kind, m, x, prev, wd) ==
    (CASE kind = "id"      -> x
       [] kind = "not"     -> Low(wd) \ x
       [] kind = "xor"     -> BfSymDiff(x, m)
       [] kind = "and"     -> x \cap m
       [] kind = "or"      -> x \cup m
       [] kind = "const"   -> m
       [] kind = "shl1"    -> {b + 1 : b \in x}
       [] kind = "xorprev" -> BfSymDiff(x, prev)) \cap Low(wd)
ApplyF(kind, m, x, prev) == ApplyFw(kind, m, x, prev, width)
ApplyAll(kind, m) ==
    [k \in 1 .. BLen |-> ApplyF(kind, m, abs[k], IF k = 1 THEN {} ELSE abs[k - 1])]

\* copy: dst[to + j] := src[from + j] for j < min(n, srclen - from, dstlen - to)
CopyCount(n, slen, from, dlen, to) == MinOf(MinOf(n, dlen - to), slen - from)
CopyAbs(sa, from, da, to, k) ==
    [j \in 1 .. Len(da) |-> IF j > to /\ j <= to + k THEN sa[from + (j - to)] ELSE da[j]]
CopyStore(sa, from, ds, to, k, wd) ==
    (ds \ Rng(to * wd, (to + k) * wd))
        \cup UNION {{(to + j) * wd + b : b \in sa[from + j + 1]} : j \in Low(k)}

\* try_chunks_mut(c): views V_j with V_j[k] = abs[j*c + k]; the accesses of the event
\* (reads, writes, out-of-range panics) are applied in order
ChunksOK(c) == BLen <= c \/ (c * width) % W = 0
RECURSIVE ChunkActs(_, _, _, _)
ChunkActs(a, c, acts, k) ==          \* -> [abs, res]
    IF k > Len(acts) THEN [abs |-> a, res |-> <<>>]
    ELSE LET act   == acts[k]
             nv    == CeilDiv(Len(a), c)
             vlen  == IF act.j >= nv THEN 0 ELSE MinOf(c, Len(a) - act.j * c)
             iswr  == "v" \in DOMAIN act
             v     == IF iswr THEN ToSet(act.v) ELSE {}
             idx   == act.j * c + act.k
             this  == IF act.j >= nv THEN [k |-> "nov", v |-> {}]
                      ELSE IF act.k >= vlen \/ (iswr /\ ~(v \subseteq Low(width))) THEN [k |-> "p", v |-> {}]
                      ELSE IF iswr THEN [k |-> "w", v |-> {}]
                      ELSE [k |-> "r", v |-> a[idx + 1]]
             a2    == IF this.k = "w" THEN [a EXCEPT ![idx + 1] = v] ELSE a
             rest  == ChunkActs(a2, c, acts, k + 1)
         IN  [abs |-> rest.abs, res |-> <<this>> \o rest.res]

\* The blanket implementations of the slice traits for plain vectors of words (Vec<W>,
\* Vec<AtomicW>): every element is a full-width field.  `plain` is a stateless operation:
\* an operand given by the event and a list of accesses, each with its result.
PRes(k, v, vs, n) == [k |-> k, v |-> v, vs |-> vs, n |-> n]
RECURSIVE PlainActs(_, _, _)
PlainActs(a, acts, k) ==          \* -> [fin, res]
    IF k > Len(acts) THEN [fin |-> a, res |-> <<>>]
    ELSE LET act == acts[k]
             kk  == act.k
             n   == Len(a)
             ok0 == PRes("ok", {}, <<>>, 0)
             x   == \* [r: result, a: contents afterwards]
                CASE kk \in {"a_get", "a_set", "a_reset", "a_par_reset", "a_len", "a_bit_width"} /\ ~HasAtomic ->
                        [r |-> PRes("u", {}, <<>>, 0), a |-> a]
                  [] kk \in {"get", "a_get"} ->
                        IF act.i < n THEN [r |-> PRes("ok", a[act.i + 1], <<>>, 0), a |-> a]
                        ELSE [r |-> PRes("p", {}, <<>>, 0), a |-> a]
                  [] kk \in {"set", "a_set"} ->
                        IF act.i < n THEN [r |-> ok0, a |-> [a EXCEPT ![act.i + 1] = ToSet(act.v)]]
                        ELSE [r |-> PRes("p", {}, <<>>, 0), a |-> a]
                  [] kk \in {"reset", "par_reset", "a_reset", "a_par_reset"} -> [r |-> ok0, a |-> Rep(n, {})]
                  [] kk \in {"len", "a_len"} -> [r |-> PRes("ok", {}, <<>>, n), a |-> a]
                  [] kk \in {"bit_width", "a_bit_width"} -> [r |-> PRes("ok", {}, <<>>, W), a |-> a]
                  [] kk = "copy" ->
                        LET d == Vals(act.dst) IN
                        IF act.from > n \/ act.to > Len(d) THEN [r |-> PRes("u", {}, <<>>, 0), a |-> a]
                        ELSE [r |-> PRes("ok", {}, CopyAbs(a, act.from, d, act.to,
                                                           CopyCount(act.n, n, act.from, Len(d), act.to)), 0), a |-> a]
                  [] kk = "apply" ->
                        [r |-> PRes("ok", {}, a, 0),
                         a |-> [i \in 1 .. n |-> ApplyFw(act.kind, ToSet(act.m), a[i], IF i = 1 THEN {} ELSE a[i - 1], W)]]
             rest == PlainActs(x.a, acts, k + 1)
         IN  [fin |-> rest.fin, res |-> <<x.r>> \o rest.res]

\* get_unaligned: admissible widths, and whether a padding word follows the contents
UnalignedWidth == width + 6 <= W \/ width + 4 = W \/ width = W
HasPadding     == nw * W >= CeilDiv(BitLen, W) * W + W

(***************************************************************************)
(* C11: a vector that has only been built or grown takes len*width bits    *)
(* rounded up to whole words, plus the padding word of new_unaligned.      *)
(* Additive constant: the constructors allocate at least one word (so      *)
(* that width 0 needs no branch), and mem_size includes the struct         *)
(* itself: Vec (3 words of 8 bytes), bit_width and len (8 bytes each), the *)
(* mask (one W-bit word) and alignment padding (< max(8, W/8) bytes).      *)
(***************************************************************************)
HeaderBytes == 40 + (W \div 8) + (MaxOf(8, W \div 8) - 1)
MemBound ==
    (OneOr(CeilDiv(BitLen, W)) + (IF built = "padded" THEN 1 ELSE 0)) * (W \div 8) + HeaderBytes

(***************************************************************************)
(* Eff(op, g): outcome, result and next state of one public call.          *)
(***************************************************************************)
Eff(op, g) ==
    LET o == op.op IN
    IF ~Applicable(op) THEN NA
    ELSE CASE
    \* ------------------------------------------------------------ constructors
       o \in {"new", "a_new", "new_unaligned", "with_capacity", "macro_empty"} ->
         LET n == IF o \in {"with_capacity", "macro_empty"} THEN 0 ELSE op.n IN
         IF n >= HUGE THEN Panic          \* 2^31 or more elements of nonzero width: cannot be allocated
         ELSE Unit(St(wt, op.width, Rep(n, {}), g.garb, g.nw,
                      IF o = "a_new" THEN "atomic" ELSE "vec",
                      IF o = "new_unaligned" THEN "padded" ELSE "exact"))
    [] o \in {"raw", "a_raw"} ->
         Unit(St(wt, op.width, AbsOf(ToSet(op.rstore), op.rlen, op.width), ToSet(op.rstore), op.rnw,
                 IF o = "a_raw" THEN "atomic" ELSE "vec", "no"))
    [] o = "from_slice" ->
         LET vs == Vals(op.vals)
             mw == IF vs = <<>> THEN 0 ELSE BitLength(UNION {vs[k] : k \in 1 .. Len(vs)})
         IN  IF mw > W THEN Ret("int", FALSE)          \* Err: the values do not fit the word
             \* the width is the implementation's choice (any width that holds the values)
             ELSE IF g.width < mw \/ g.width > W THEN R("ret", "int", TRUE, Same, FALSE)
             ELSE R("ret", "int", TRUE,
                    St(wt, g.width, vs, Enc(vs, 0, Len(vs), g.width) \cup g.garb, g.nw, "vec", "exact"), FALSE)
    [] o = "plain" -> Ret("plain", PlainActs(Vals(op.vals), op.acts, 1))
    [] o = "macro_rep" ->         \* with_capacity + resize
         LET v == ToSet(op.v) IN
         IF ~(v \subseteq Low(op.width)) THEN Panic
         ELSE Unit(St(wt, op.width, Rep(op.n, v), Enc(Rep(op.n, v), 0, op.n, op.width) \cup g.garb,
                      g.nw, "vec", "exact"))
    [] o = "macro_list" ->        \* with_capacity + push of every value
         LET vs == Vals(op.vals) IN
         IF \E k \in 1 .. Len(vs) : ~(vs[k] \subseteq Low(op.width)) THEN Panic
         ELSE Unit(St(wt, op.width, vs, Enc(vs, 0, Len(vs), op.width) \cup g.garb, g.nw, "vec", "exact"))
    \* ------------------------------------------------------------ growth and truncation
    [] o = "push" ->
         LET v == ToSet(op.v) a == Append(abs, v) IN
         IF ~Fits(v) THEN Panic ELSE Unit(St(wt, width, a, Written(a, BLen) \cup g.garb, g.nw, form, built))
    [] o = "extend" ->
         LET vs  == Vals(op.vals)
             bad == {k \in 1 .. Len(vs) : ~Fits(vs[k])}
             ok  == IF bad = {} THEN Len(vs) ELSE (CHOOSE k \in bad : \A j \in bad : k <= j) - 1
             a   == abs \o SubSeq(vs, 1, ok)
         IN  R(IF bad = {} THEN "ret" ELSE "panic", "none", <<>>,
               St(wt, width, a, Written(a, BLen) \cup g.garb, g.nw, form, built), FALSE)
    [] o = "pop" ->
         IF BLen = 0 THEN Ret("oval", <<>>)
         ELSE R("ret", "oval", <<abs[BLen]>>, St(wt, width, SubSeq(abs, 1, BLen - 1), store, nw, form, "no"), FALSE)
    [] o = "resize" ->
         LET v == ToSet(op.v) IN
         IF ~Fits(v) THEN Panic
         ELSE IF op.n <= BLen
         THEN Unit(St(wt, width, SubSeq(abs, 1, op.n), store, nw, form, IF op.n < BLen THEN "no" ELSE built))
         ELSE IF op.n >= HUGE THEN Panic
         ELSE LET a == abs \o Rep(op.n - BLen, v) IN
              Unit(St(wt, width, a, Written(a, BLen) \cup g.garb, g.nw, form, built))
    [] o = "clear" ->
         Unit(St(wt, width, <<>>, store, nw, form, IF BLen > 0 THEN "no" ELSE built))
    \* ------------------------------------------------------------ element access
    [] o \in {"get", "get_unchecked", "a_get", "a_get_unchecked"} ->
         IF op.i < BLen THEN Ret("val", abs[op.i + 1]) ELSE Panic
    [] o = "view_atomic_get" ->
         IF op.i < BLen THEN Ret("vals", <<abs[op.i + 1], abs[op.i + 1]>>) ELSE Panic
    [] o \in {"set", "set_unchecked", "a_set", "a_set_unchecked", "view_atomic_set"} ->
         LET v == ToSet(op.v) IN
         IF op.i < BLen /\ Fits(v)
         THEN Unit(With([abs EXCEPT ![op.i + 1] = v],
                        (store \ Rng(op.i * width, (op.i + 1) * width)) \cup {op.i * width + b : b \in v}))
         ELSE Panic
    [] o = "get_unaligned" ->
         IF ~UnalignedWidth \/ op.i >= BLen THEN Panic
         ELSE R("ret", "val", abs[op.i + 1], Same, ~HasPadding)
    [] o = "addr_of" ->
         IF op.i < BLen THEN Ret("int", (op.i * width) \div W)
         ELSE R("ret", "any", <<>>, Same, TRUE)
    \* ------------------------------------------------------------ bulk writers
    [] o \in {"reset", "par_reset", "a_reset", "a_par_reset", "a_reset_dep"} ->
         Unit(With(Rep(BLen, {}), store \ Low(BitLen)))
    [] o \in {"apply", "apply_unchecked"} ->
         LET a == ApplyAll(op.kind, ToSet(op.m)) IN Unit(With(a, Written(a, 0)))
    [] o = "copy_from" ->
         LET oa == AbsOf(ToSet(op.ostore), op.olen, width)
             k  == CopyCount(op.n, op.olen, op.from, BLen, op.to)
         IN  Unit(With(CopyAbs(oa, op.from, abs, op.to, k), CopyStore(oa, op.from, store, op.to, k, width)))
    [] o = "copy_to" ->
         LET k == CopyCount(op.n, BLen, op.from, op.olen, op.to) IN
         Ret("other", [olen |-> op.olen, onw |-> op.onw,
                       ostore |-> CopyStore(abs, op.from, ToSet(op.ostore), op.to, k, width)])
    [] o = "chunks" ->
         \* every chunk size beyond the length gives the same single view (and keeps the
         \* arithmetic below 2^31 for sizes logged as HUGE)
         LET c == IF op.c > BLen THEN BLen + 1 ELSE op.c IN
         \* a zero chunk size is out of domain (as for slices): an Err or a panic
         IF c = 0 THEN R("ret", "chunks", [ok |-> FALSE, lens |-> <<>>, acts |-> <<>>], Same, TRUE)
         ELSE IF ~ChunksOK(c) THEN Ret("chunks", [ok |-> FALSE, lens |-> <<>>, acts |-> <<>>])
         ELSE LET x  == ChunkActs(abs, c, op.acts, 1)
                  nv == CeilDiv(BLen, c)
              IN  R("ret", "chunks",
                    [ok |-> TRUE, lens |-> [j \in 1 .. nv |-> MinOf(c, BLen - (j - 1) * c)], acts |-> x.res],
                    With(x.abs, Written(x.abs, 0)), FALSE)
    \* ------------------------------------------------------------ readers
    [] o \in {"len", "a_len"}                           -> Ret("int", BLen)
    [] o = "is_empty"                                   -> Ret("int", BLen = 0)
    [] o \in {"bit_width", "bit_width_vec", "a_bit_width"} -> Ret("int", width)
    [] o \in {"mask", "mask_vec", "a_mask"}             -> Ret("val", Low(width))
    [] o \in {"iter", "into_iter", "a_all"}             -> Ret("vals", abs)
    [] o \in {"iter_from", "into_iter_from", "slice_iter"} ->
         IF op.from > BLen THEN Panic ELSE Ret("vals", SubSeq(abs, op.from + 1, BLen))
    [] o = "iter_len" ->
         IF op.from > BLen THEN Panic
         ELSE LET got == MinOf(op.k, BLen - op.from) rem == BLen - op.from - got
              IN  Ret("int", <<got, rem, rem, <<rem>>>>)
    [] o = "uiter" ->
         LET f == UFrom(op) IN
         IF f > BLen THEN Panic ELSE Ret("vals", SubSeq(abs, f + 1, f + op.n))
    [] o = "ruiter" ->
         LET f == RFrom(op) IN
         IF f > BLen THEN Panic ELSE Ret("vals", [k \in 1 .. op.n |-> abs[f - k + 1]])
    [] o = "eq_other" ->
         LET e == /\ op.owidth = width /\ op.olen = BLen
                  /\ ToSet(op.ostore) \cap Low(BitLen) = store \cap Low(BitLen)
         IN  Ret("int", <<e, e, e>>)
    [] o = "clone"    -> Ret("copy", <<>>)
    [] o = "mem_size" -> IF built = "no" \/ form \notin {"vec", "boxed"} THEN Ret("any", <<>>)
                         ELSE Ret("mem", MemBound)
    \* ------------------------------------------------------------ conversions, reload
    [] o = "into"          -> Unit(St(wt, width, abs, store, nw, op.to, built))
    [] o = "raw_roundtrip" -> Unit(Same)
    [] o = "reload" ->      \* C15: same contents; the storage beyond them is the loader's business
         LET full == op.mode \in {"full", "load_full"} IN
         Unit(St(wt, width, abs, (store \cap Low(BitLen)) \cup g.garb, g.nw,
                 IF full THEN (IF form = "boxed" THEN "boxed" ELSE "vec")
                 ELSE IF op.mode \in {"eps", "eps8"} THEN "eps" ELSE "mmap",
                 IF full /\ form \in {"vec", "boxed"} THEN built ELSE "no"))

\* A clone must have the same contents; its storage beyond them is unconstrained.
CopyOK(r) == /\ r.owidth = width /\ r.olen = BLen
             /\ r.onw * W >= BitLen
             /\ ToSet(r.ostore) \cap Low(BitLen) = store \cap Low(BitLen)
             /\ r.eq

(***************************************************************************)
(*                                DESIGN                                   *)
(*                                                                         *)
(* Words are sets of bit positions 0 .. W-1.  Every transcription returns  *)
(* a record with the value(s) it computes, `reads`/`writes` (indices of    *)
(* the words it touches) and `ok` (every shift amount < W, every           *)
(* subtraction non-negative).                                              *)
(***************************************************************************)
WordAt(s, k)     == {b \in Low(W) : k * W + b \in s}
PutWord(s, k, w) == (s \ Rng(k * W, (k + 1) * W)) \cup {k * W + b : b \in w}
Shl(w, k)        == {b + k : b \in {c \in w : c + k < W}}
Shr(w, k)        == {b - k : b \in {c \in w : c >= k}}
Rotl(w, k)       == {(b + k) % W : b \in w}
MaskW            == Low(width)

\* ---- BitFieldSlice::get_unchecked
GetW(s, i) ==
    LET pos == i * width  wi == pos \div W  bi == pos % W IN
    IF bi + width <= W
    THEN [val |-> Shr(WordAt(s, wi), bi) \cap MaskW, reads |-> {wi}, ok |-> TRUE]
    ELSE [val |-> (Shr(WordAt(s, wi), bi) \cup Shl(WordAt(s, wi + 1), W - bi)) \cap MaskW,
          reads |-> {wi, wi + 1}, ok |-> bi > 0]

\* ---- BitFieldSliceMut::set_unchecked (read-modify-write of one or two words)
SetW(s, i, v) ==
    LET pos == i * width  wi == pos \div W  bi == pos % W IN
    IF bi + width <= W
    THEN [store  |-> PutWord(s, wi, (WordAt(s, wi) \ Shl(MaskW, bi)) \cup Shl(v, bi)),
          writes |-> {wi}, ok |-> TRUE]
    ELSE LET s1 == PutWord(s, wi, (WordAt(s, wi) \cap Low(bi)) \cup Shl(v, bi))
             w1 == (WordAt(s1, wi + 1) \ Shr(MaskW, W - bi)) \cup Shr(v, W - bi)
         IN  [store |-> PutWord(s1, wi + 1, w1), writes |-> {wi, wi + 1}, ok |-> bi > 0]

\* ---- BitFieldVectorUncheckedIterator (window refill), n calls of next_unchecked from `from`
FwdNew(from) ==
    IF from = BLen THEN [wi |-> 0, win |-> {}, fill |-> 0, reads |-> {}, ok |-> TRUE, out |-> <<>>]
    ELSE LET off == from * width  bi == off % W  wi == off \div W IN
         [wi |-> wi, win |-> Shr(WordAt(store, wi), bi), fill |-> W - bi, reads |-> {wi}, ok |-> TRUE, out |-> <<>>]
FwdNext(it) ==
    IF it.fill >= width
    THEN [it EXCEPT !.fill = @ - width,
                    !.win  = IF width = W THEN {} ELSE Shr(@, width),     \* fix: no shift by W
                    !.out  = Append(@, it.win \cap MaskW)]
    ELSE LET nwin == WordAt(store, it.wi + 1)
             used == width - it.fill
         IN  [wi |-> it.wi + 1, win |-> IF used = W THEN {} ELSE Shr(nwin, used),   \* fix: idem
              fill |-> W - used, reads |-> it.reads \cup {it.wi + 1}, ok |-> it.ok /\ it.fill < W,
              out |-> Append(it.out, (it.win \cup Shl(nwin, it.fill)) \cap MaskW)]
RECURSIVE FwdIter(_, _)
FwdIter(it, n) == IF n = 0 THEN it ELSE FwdIter(FwdNext(it), n - 1)
FwdW(from, n) == FwdIter(FwdNew(from), n)

\* ---- BitFieldVectorReverseUncheckedIterator
RevNew(from) ==
    IF from = 0 THEN [wi |-> 0, win |-> {}, fill |-> 0, reads |-> {}, ok |-> TRUE, out |-> <<>>]
    ELSE LET off  == IF from * width = 0 THEN 0 ELSE from * width - 1     \* saturating_sub(1)
             bi   == off % W  wi == off \div W  fill == bi + 1
         IN  [wi |-> wi, win |-> Shl(WordAt(store, wi), W - fill), fill |-> fill, reads |-> {wi},
              ok |-> TRUE, out |-> <<>>]
RevNext(it) ==
    IF it.fill >= width
    THEN LET w2 == Rotl(it.win, width) IN
         [it EXCEPT !.fill = @ - width, !.win = w2, !.out = Append(@, w2 \cap MaskW)]
    ELSE LET res0 == Rotl(it.win, it.fill)
             nwin == IF it.wi = 0 THEN {} ELSE WordAt(store, it.wi - 1)
             used == width - it.fill
             rd   == it.reads \cup {it.wi - 1}
             ok2  == it.ok /\ it.wi > 0
         IN  IF used = W                     \* fix: full-width field on a word boundary
             THEN [wi |-> it.wi - 1, reads |-> rd, ok |-> ok2, win |-> nwin, fill |-> 0,
                   out |-> Append(it.out, nwin)]
             ELSE [wi |-> it.wi - 1, reads |-> rd, ok |-> ok2, win |-> Shl(nwin, used), fill |-> W - used,
                   out |-> Append(it.out, (Shl(res0, used) \cup Shr(nwin, W - used)) \cap MaskW)]
RECURSIVE RevIter(_, _)
RevIter(it, n) == IF n = 0 THEN it ELSE RevIter(RevNext(it), n - 1)
RevW(from, n) == RevIter(RevNew(from), n)

\* ---- PartialEq: full words, then the xor of the residual words shifted left
EqW(ostore, owidth, olen) ==
    LET full == BitLen \div W  res == BitLen % W IN
    IF width # owidth \/ BLen # olen THEN [val |-> FALSE, reads |-> {}]
    ELSE IF \E k \in Low(full) : WordAt(store, k) # WordAt(ostore, k) THEN [val |-> FALSE, reads |-> Low(full)]
    ELSE [val   |-> res = 0 \/ Shl(BfSymDiff(WordAt(store, full), WordAt(ostore, full)), W - res) = {},
          reads |-> Low(full) \cup (IF res # 0 THEN {full} ELSE {})]

\* ---- reset / reset_atomic: full words, then the last word and-ed with MAX << residual
ResetW ==
    LET full == BitLen \div W  res == BitLen % W
        s1   == store \ Low(full * W)
    IN  [store  |-> IF res # 0 THEN PutWord(s1, full, WordAt(s1, full) \cap Shl(Low(W), res)) ELSE s1,
         writes |-> Low(full) \cup (IF res # 0 THEN {full} ELSE {})]

\* ---- apply_in_place_unchecked (with the fixes: only the words holding elements, tail of
\*      the last word preserved, full width and width zero handled apart)
\* accumulator: s store, calls, prev (for xorprev), ok, reads
ApAcc(s) == [s |-> s, calls |-> <<>>, prev |-> {}, ok |-> TRUE, reads |-> {}]
ApCall(acc, kind, m, x) == [acc EXCEPT !.calls = Append(@, x), !.prev = x]
ApVal(acc, kind, m, x)  == ApplyF(kind, m, x, acc.prev)

\* power-of-two path: consume the read buffer while a whole field fits below `limit`
\* (inner loop: `if bits + width > W break` for the words but the last,
\*  `while bits < buffer_limit` for the last one)
RECURSIVE ApPow2Word(_, _, _, _, _, _, _, _)
ApPow2Word(acc, kind, m, rbuf, wbuf, bits, last, limit) ==     \* -> [acc, rbuf, wbuf]
    IF (IF last THEN bits >= limit ELSE bits + width > W) THEN [acc |-> acc, rbuf |-> rbuf, wbuf |-> wbuf]
    ELSE LET x == rbuf \cap MaskW
             y == ApVal(acc, kind, m, x)
         IN  ApPow2Word([ApCall(acc, kind, m, x) EXCEPT !.ok = @ /\ bits < W], kind, m, Shr(rbuf, width),
                        wbuf \cup Shl(y, bits), bits + width, last, limit)
RECURSIVE ApPow2(_, _, _, _, _, _)
ApPow2(acc, kind, m, k, nwords, tail) ==                 \* word k of nwords
    LET last  == k = nwords - 1
        limit == IF last /\ BitLen % W # 0 THEN BitLen % W ELSE W
        r     == ApPow2Word([acc EXCEPT !.reads = @ \cup {k}], kind, m, WordAt(acc.s, k), {}, 0, last, limit)
        a2    == [r.acc EXCEPT !.s  = PutWord(@, k, r.wbuf \cup (IF last THEN tail ELSE {})),
                               !.ok = @ /\ (last \/ r.rbuf = {})]       \* invariant_eq!(read_buffer, 0)
    IN  IF last THEN a2 ELSE ApPow2(a2, kind, m, k + 1, nwords, tail)

\* general path: fields wholly inside the current word, then the straddling field
RECURSIVE ApGenInner(_, _, _, _, _, _, _, _)
ApGenInner(acc, kind, m, rbuf, wbuf, gbi, lower, stop) ==   \* while gbi + width <= stop
    IF gbi + width > stop THEN [acc |-> acc, wbuf |-> wbuf, gbi |-> gbi]
    ELSE LET off == gbi - lower
             x   == MaskW \cap Shr(rbuf, off)
             y   == ApVal(acc, kind, m, x)
         IN  ApGenInner(ApCall(acc, kind, m, x), kind, m, rbuf, wbuf \cup Shl(y, off), gbi + width, lower, stop)
RECURSIVE ApGenLast(_, _, _, _, _, _, _)
ApGenLast(acc, kind, m, rbuf, wbuf, off, limit) ==          \* while offset < len*width - gbi
    IF off >= limit THEN [acc |-> acc, wbuf |-> wbuf]
    ELSE LET x == MaskW \cap Shr(rbuf, off)
             y == ApVal(acc, kind, m, x)
         IN  ApGenLast([ApCall(acc, kind, m, x) EXCEPT !.ok = @ /\ off < W], kind, m, rbuf,
                       wbuf \cup Shl(y, off), off + width, limit)
RECURSIVE ApGen(_, _, _, _, _, _, _, _)
ApGen(acc, kind, m, k, nwords, wbuf0, gbi0, tail) ==
    LET lower == k * W  upper == lower + W
        rbuf  == WordAt(acc.s, k)
        acc1  == [acc EXCEPT !.reads = @ \cup {k}]
    IN  IF k = nwords - 1
        THEN \* last word: while offset < len*width - gbi (offset = gbi - lower on entry)
             LET r == ApGenLast([acc1 EXCEPT !.ok = @ /\ gbi0 >= lower /\ BitLen >= gbi0], kind, m, rbuf, wbuf0,
                                gbi0 - lower, BitLen - gbi0) IN
             [r.acc EXCEPT !.s = PutWord(@, k, r.wbuf \cup tail)]
        ELSE LET r    == ApGenInner(acc1, kind, m, rbuf, wbuf0, gbi0, lower, upper)
                 next == WordAt(acc.s, k + 1)
                 rem  == upper - r.gbi
                 off  == r.gbi - lower
                 x    == (Shr(rbuf, off) \cup Shl(next, rem)) \cap MaskW
                 y    == ApVal(r.acc, kind, m, x)
             IN  IF rem = 0
                 THEN ApGen([r.acc EXCEPT !.s = PutWord(@, k, r.wbuf), !.reads = @ \cup {k + 1}],
                            kind, m, k + 1, nwords, {}, r.gbi, tail)
                 ELSE ApGen([ApCall(r.acc, kind, m, x) EXCEPT !.s = PutWord(@, k, r.wbuf \cup Shl(y, off)),
                                                              !.reads = @ \cup {k + 1},
                                                              !.ok = @ /\ rem < W /\ off < W],
                            kind, m, k + 1, nwords, Shr(y, rem), r.gbi + width, tail)

RECURSIVE ApFull(_, _, _, _)
ApFull(acc, kind, m, k) ==                               \* width = W: one word per element
    IF k = BLen THEN acc
    ELSE LET x == WordAt(acc.s, k) IN
         ApFull([ApCall(acc, kind, m, x) EXCEPT !.s = PutWord(@, k, ApVal(acc, kind, m, x)),
                                                !.reads = @ \cup {k}], kind, m, k + 1)
IsPow2(n) == n \in {1, 2, 4, 8, 16, 32, 64, 128}
ApplyW(kind, m) ==
    LET nwords == CeilDiv(BitLen, W)
        res    == BitLen % W
        tail   == IF res = 0 THEN {} ELSE WordAt(store, nwords - 1) \cap Shl(Low(W), res)
        acc0   == ApAcc(store)
    IN  IF BLen = 0 THEN acc0
        ELSE IF width = 0 THEN [acc0 EXCEPT !.calls = Rep(BLen, {})]
        ELSE IF width = W THEN ApFull(acc0, kind, m, 0)
        ELSE IF IsPow2(width) THEN ApPow2(acc0, kind, m, 0, nwords, tail)
        ELSE ApGen(acc0, kind, m, 0, nwords, {}, 0, tail)

\* ---- try_chunks_mut: view j is a BitFieldVec over the words j*m .. of the prefix of
\*      ceil(len*width/W) words, m = ceil(c*width/W); its element k is read by GetW at
\*      the view's own bit offset
ChunkWords(c)  == CeilDiv(c * width, W)
ChunkGetW(c, j, k) ==
    LET m == ChunkWords(c)
        total == CeilDiv(BitLen, W)
        lo == j * m  hi == MinOf((j + 1) * m, total)
        sub == {p - lo * W : p \in {q \in store : q >= lo * W /\ q < hi * W}}
        g == GetW(sub, k)
    IN  [val |-> g.val, ok |-> g.ok /\ \A r \in g.reads : r < hi - lo]
NumChunks(c) == IF ChunkWords(c) = 0 THEN 0 ELSE CeilDiv(CeilDiv(BitLen, W), ChunkWords(c))

\* ---- get_unaligned (fix: byte offset = start_bit / 8): unaligned little-endian read
UnalignedW(i) ==
    LET sb == i * width  byte == sb \div 8
        word == {b \in Low(W) : byte * 8 + b \in store}
    IN  [val |-> Shr(word, sb % 8) \cap MaskW,
         ok  |-> byte + (W \div 8) <= nw * (W \div 8)]        \* the assert of get_unaligned

(***************************************************************************)
(* CopyDesign: the six-way word-level copy of BitFieldVec::copy            *)
(* (src store ss, dst store ds with dn words; same width), after the       *)
(* fixes "width 0" and "src_bit < dst_bit: last word".  Returns the new    *)
(* destination store, the words read/written and ok.                       *)
(***************************************************************************)
RECURSIVE CpLt(_, _, _, _, _, _, _, _)
CpLt(ss, d, sf, df, i, n, word, shift) ==        \* middle words, src_bit < dst_bit -> [d, word]
    IF i >= n THEN [d |-> d, word |-> word]
    ELSE CpLt(ss, PutWord(d, df + i, word \cup Shl(WordAt(ss, sf + i), shift)), sf, df, i + 1, n,
              Shr(WordAt(ss, sf + i), W - shift), shift)
RECURSIVE CpGt(_, _, _, _, _, _, _, _)
CpGt(ss, d, sf, df, i, n, word, shift) ==        \* middle words, src_bit > dst_bit -> [d, word]
    IF i >= n THEN [d |-> d, word |-> word]
    ELSE CpGt(ss, PutWord(d, df + i, word \cup Shl(WordAt(ss, sf + i + 1), W - shift)), sf, df, i + 1, n,
              Shr(WordAt(ss, sf + i + 1), shift), shift)

CopyDesign(ss, slen, from, ds, dlen, to, n) ==
    LET k == CopyCount(n, slen, from, dlen, to) IN
    IF k = 0 \/ width = 0 THEN [store |-> ds, reads |-> {}, writes |-> {}, ok |-> TRUE, branch |-> 0]
    ELSE
    LET bl == k * width
        sp == from * width  dp == to * width
        sb == sp % W  db == dp % W
        sf == sp \div W  df == dp \div W
        sl == (sp + bl - 1) \div W  dl == (dp + bl - 1) \div W
        S(x) == WordAt(ss, x)
        D(x) == WordAt(ds, x)
    IN
    IF sf = sl /\ df = dl THEN
        LET mask == Shr(Low(W), W - bl)
            word == Shr(S(sf), sb) \cap mask
        IN  [store |-> PutWord(ds, df, (D(df) \ Shl(mask, db)) \cup Shl(word, db)),
             reads |-> {sf}, writes |-> {df}, ok |-> W - bl < W, branch |-> 1]
    ELSE IF sf = sl THEN
        LET mask == Shr(Low(W), W - bl)
            word == Shr(S(sf), sb) \cap mask
            d1   == PutWord(ds, df, (D(df) \ Shl(mask, db)) \cup Shl(word, db))
        IN  [store |-> PutWord(d1, dl, (WordAt(d1, dl) \ Shr(mask, W - db)) \cup Shr(word, W - db)),
             reads |-> {sf}, writes |-> {df, dl}, ok |-> W - bl < W /\ W - db < W, branch |-> 2]
    ELSE IF df = dl THEN
        LET mask == Shr(Low(W), W - bl)
            word == (Shr(S(sf), sb) \cup Shl(S(sl), W - sb)) \cap mask
        IN  [store |-> PutWord(ds, df, (D(df) \ Shl(mask, db)) \cup Shl(word, db)),
             reads |-> {sf, sl}, writes |-> {df}, ok |-> W - bl < W /\ W - sb < W, branch |-> 3]
    ELSE IF sb = db THEN
        LET mask0 == Shl(Low(W), db)
            d1    == PutWord(ds, df, (D(df) \ mask0) \cup (S(sf) \cap mask0))
            mid   == Rng(1, dl - df)
            d2    == (d1 \ Rng((df + 1) * W, dl * W))
                         \cup UNION {{(df + i) * W + b : b \in S(sf + i)} : i \in mid}
            res   == bl - (W - sb) - (dl - df - 1) * W
            mask  == Shr(Low(W), W - res)
        IN  [store |-> PutWord(d2, dl, (WordAt(d2, dl) \ mask) \cup (S(sl) \cap mask)),
             reads |-> {sf, sl} \cup {sf + i : i \in mid}, writes |-> Rng(df, dl + 1),
             ok |-> res >= 1 /\ res <= W /\ sl - sf = dl - df, branch |-> 4]
    ELSE IF sb < db THEN
        LET dmask == Shl(Low(W), db)  smask == Shl(Low(W), sb)
            shift == db - sb
            d1    == PutWord(ds, df, (D(df) \ dmask) \cup Shl(S(sf) \cap smask, shift))
            r     == CpLt(ss, d1, sf, df, 1, dl - df, Shr(S(sf), W - shift), shift)
            sw    == sf + (dl - df)
            word  == IF sw <= sl THEN r.word \cup Shl(S(sw), shift) ELSE r.word     \* fix: last word
            res   == bl - (W - db) - (dl - df - 1) * W
            mask  == Shr(Low(W), W - res)
        IN  [store |-> PutWord(r.d, dl, (WordAt(r.d, dl) \ mask) \cup (word \cap mask)),
             reads |-> Rng(sf, MinOf(sw, sl) + 1), writes |-> Rng(df, dl + 1),
             ok |-> res >= 1 /\ res <= W /\ sf + (dl - df) - 1 <= sl, branch |-> 5]
    ELSE
        LET dmask == Shl(Low(W), db)  smask == Shl(Low(W), sb)
            shift == sb - db
            d1    == PutWord(ds, df, ((D(df) \ dmask) \cup Shr(S(sf) \cap smask, shift)) \cup Shl(S(sf + 1), W - shift))
            r     == CpGt(ss, d1, sf, df, 1, dl - df, Shr(S(sf + 1), shift), shift)
            word  == r.word \cup Shl(S(sl), W - shift)
            res   == bl - (W - db) - (dl - df - 1) * W
            mask  == Shr(Low(W), W - res)
        IN  [store |-> PutWord(r.d, dl, (WordAt(r.d, dl) \ mask) \cup (word \cap mask)),
             reads |-> Rng(sf, sl + 1), writes |-> Rng(df, dl + 1),
             ok |-> res >= 1 /\ res <= W /\ sf + (dl - df) <= sl, branch |-> 6]

(***************************************************************************)
(* Design invariants over the current state (every reachable backend,      *)
(* every garbage pattern, every index).                                    *)
(***************************************************************************)
DesignAccess ==
    \A i \in Low(BLen) :
        LET g == GetW(store, i) IN g.val = abs[i + 1] /\ g.reads \subseteq Low(nw) /\ g.ok

DesignSet(ValMenu) ==
    \A i \in Low(BLen) : \A v \in ValMenu :
        Fits(v) =>
            LET x == SetW(store, i, v) IN
            /\ x.ok /\ x.writes \subseteq Low(nw)
            /\ x.store = (store \ Rng(i * width, (i + 1) * width)) \cup {i * width + b : b \in v}

DesignIter ==
    /\ \A from \in 0 .. BLen :
          LET it == FwdW(from, BLen - from) IN
          it.out = SubSeq(abs, from + 1, BLen) /\ it.ok /\ it.reads \subseteq Low(nw)
    /\ \A from \in 0 .. BLen :
          LET it == RevW(from, from) IN
          it.out = [k \in 1 .. from |-> abs[from - k + 1]] /\ it.ok /\ it.reads \subseteq Low(nw)

DesignEq ==
    /\ EqW(store, width, BLen).val /\ EqW(store, width, BLen).reads \subseteq Low(nw)
    \* equality ignores everything beyond the contents: all-zero and all-one tails
    /\ EqW(store \cap Low(BitLen), width, BLen).val
    /\ EqW((store \cap Low(BitLen)) \cup Rng(BitLen, nw * W), width, BLen).val
    \* and sees every bit of the contents
    /\ \A p \in Low(BitLen) : ~EqW(BfSymDiff(store, {p}), width, BLen).val

DesignReset ==
    ResetW.store = store \ Low(BitLen) /\ ResetW.writes \subseteq Low(nw)

DesignApply(Kinds, MMenu) ==
    \A kind \in Kinds : \A m \in MMenu :
        LET x == ApplyW(kind, m)
            a == ApplyAll(kind, m)
        IN  /\ x.calls = abs                      \* once per element, in index order, current value
            /\ x.s = Written(a, 0)                \* results stored, nothing else touched
            /\ x.ok /\ x.reads \subseteq Low(nw)

DesignChunks ==
    \A c \in 1 .. (BLen + 1) :
        ChunksOK(c) /\ width > 0 =>
            /\ NumChunks(c) = CeilDiv(BLen, c)
            /\ \A j \in Low(CeilDiv(BLen, c)) : \A k \in Low(MinOf(c, BLen - j * c)) :
                   LET g == ChunkGetW(c, j, k) IN g.ok /\ g.val = abs[j * c + k + 1]

DesignUnaligned ==
    (W >= 8 /\ UnalignedWidth) =>
        \A i \in Low(BLen) :
            LET u == UnalignedW(i) IN
            /\ HasPadding => u.ok                 \* with a padding word the assert never fires
            /\ u.ok => u.val = abs[i + 1]

\* copy between the current vector (as source and as destination) and another one
DesignCopy(ostore, olen, onw, from, to, n) ==
    LET oa == AbsOf(ostore, olen, width)
        k1 == CopyCount(n, BLen, from, olen, to)
        k2 == CopyCount(n, olen, from, BLen, to)
        x1 == CopyDesign(store, BLen, from, ostore, olen, to, n)       \* self -> other
        x2 == CopyDesign(ostore, olen, from, store, BLen, to, n)       \* other -> self
    IN  /\ (from <= BLen /\ to <= olen) =>
              /\ x1.store = CopyStore(abs, from, ostore, to, k1, width)
              /\ x1.ok /\ x1.reads \subseteq Low(nw) /\ x1.writes \subseteq Low(onw)
        /\ (from <= olen /\ to <= BLen) =>
              /\ x2.store = CopyStore(oa, from, store, to, k2, width)
              /\ x2.ok /\ x2.reads \subseteq Low(onw) /\ x2.writes \subseteq Low(nw)

(***************************************************************************)
(* Actions of the design model.                                            *)
(***************************************************************************)
Install(s) == /\ wt' = s.wt /\ width' = s.width /\ abs' = s.abs /\ store' = s.store
              /\ nw' = s.nw /\ form' = s.form /\ built' = s.built

BFInit(t) == wt = t /\ width = 0 /\ abs = <<>> /\ store = {} /\ nw = 0 /\ form = "none" /\ built = "no"

Do(op) == Install(Eff(op, CodeGrowth(op)).st)
=============================================================================
