SPECIFICATION TraceSpec
INVARIANT TraceInv
POSTCONDITION TraceAccepted
CHECK_DEADLOCK FALSE
