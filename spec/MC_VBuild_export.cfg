SPECIFICATION MCSpec
CONSTANTS
  MaxN = 6
  Thr = {2, 5}
  MaxPass = 3
  MaxTransient = 0
  Order = "fixed"
  Export = TRUE
INVARIANTS Emit
CHECK_DEADLOCK FALSE
