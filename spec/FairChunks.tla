----------------------------- MODULE FairChunks -----------------------------
(***************************************************************************)
(* sux::utils::FairChunks: an iterator that cuts the integers 0 .. n-1,    *)
(* carrying non-negative weights, into consecutive ranges whose weight is  *)
(* approximately a target.  It is driven by the cumulative weight function *)
(* cwf = 0, w0, w0+w1, ... held in a structure answering successor queries *)
(* (in the crate: an Elias-Fano dictionary), so every step is one `succ`   *)
(* call on the dictionary -- this module composes with EliasFano's C04.    *)
(*                                                                         *)
(* State: the first position not yet returned, the cumulative weight       *)
(* there, and whether the iterator is exhausted.  One action: Next.        *)
(* When weights are 0 the cumulative function repeats values and a         *)
(* successor query may return any index holding the value (property C04),  *)
(* so Next is nondeterministic: NextChoices is the set of admissible       *)
(* results.                                                                *)
(***************************************************************************)
EXTENDS Naturals, Sequences, FiniteSets

VARIABLES wts,      \* the weights (sequence of naturals)
          target,   \* target weight of a chunk (0: exhausted from the start)
          cum,      \* cumulative weight function 0 .. n -> Nat (derived from wts once)
          pos, cw, done
fcvars == <<wts, target, cum, pos, cw, done>>

N == Len(wts)
RECURSIVE SumTo(_, _)
SumTo(w, k) == IF k = 0 THEN 0 ELSE SumTo(w, k - 1) + w[k]
CumOf(w) == [i \in 0 .. Len(w) |-> SumTo(w, i)]
Cwf(i) == cum[i]
MaxW   == Cwf(N)
Weight(a, b) == Cwf(b) - Cwf(a)         \* weight of the range a .. b-1

\* the admissible results of one call of next(): <<>> for None, or <<a, b>>
\* for the range a .. b-1, together with the successor state
NextChoices ==
    IF done \/ target = 0 THEN {[res |-> <<>>, pos |-> pos, cw |-> cw, done |-> TRUE]}
    ELSE LET t == cw + target
             c == cum
         IN
         IF t > c[N]
         THEN {[res |-> <<pos, N>>, pos |-> pos, cw |-> cw, done |-> TRUE]}
         ELSE LET ge == {c[i] : i \in {j \in 0 .. N : c[j] >= t}}
                  v  == CHOOSE x \in ge : \A y \in ge : x <= y     \* least cumulative weight >= t
              IN  {[res |-> <<pos, i>>, pos |-> i, cw |-> v, done |-> FALSE] : i \in {j \in 0 .. N : c[j] = v}}

FCInit(w, t) == wts = w /\ target = t /\ cum = CumOf(w) /\ pos = 0 /\ cw = 0 /\ done = FALSE

Install(c) == pos' = c.pos /\ cw' = c.cw /\ done' = c.done /\ UNCHANGED <<wts, target, cum>>

(***************************************************************************)
(* What a user relies on (design properties, checked by TLC on every       *)
(* reachable state of the bounded model, for every admissible choice):     *)
(***************************************************************************)
\* the iterator's bookkeeping is consistent
Consistent == pos \in 0 .. N /\ cw = Cwf(pos)
\* every returned range starts where the previous one ended and, unless it is
\* the last one, weighs at least the target; without its last element it
\* weighs less than the target when that element's weight is positive
ChunkOK(c) ==
    c.res = <<>> \/
    /\ c.res[1] = pos /\ c.res[1] <= c.res[2] /\ c.res[2] <= N
    /\ ~c.done => /\ Weight(c.res[1], c.res[2]) >= target
                  /\ c.res[2] > c.res[1]
                  /\ (wts[c.res[2]] > 0 => Weight(c.res[1], c.res[2] - 1) < target)
    /\ c.done => c.res[2] = N /\ Weight(c.res[1], N) < target
AllChunksOK == \A c \in NextChoices : ChunkOK(c)
=============================================================================
