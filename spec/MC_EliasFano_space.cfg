SPECIFICATION MCSpec
CONSTANTS
  Mode = "space"
  MaxN = 0
  Extra = 0
  MaxSN = 64
  MaxSU = 1100
INVARIANTS SpaceOK
CHECK_DEADLOCK FALSE
