---------------------------- MODULE SelectDesign ----------------------------
(***************************************************************************)
(* Scaled transcription of the two-level adaptive selection structures of  *)
(* sux::rank_sel: SelectAdapt, SelectAdaptConst, SelectZeroAdapt,          *)
(* SelectZeroAdaptConst (src/rank_sel/select_adapt*.rs,                    *)
(* select_zero_adapt*.rs: _new / new phases 1-2, select_unchecked,         *)
(* SpanType::from_span, log2_ones_per_sub32) and of the in-word completion *)
(* BitVec::select_hinted / select_zero_hinted (src/bits/bit_vec.rs).       *)
(* (Select9 is transcribed, at its real parameters, in Select9Design.)     *)
(*                                                                         *)
(* The backend is  nw  words of  W  bits;  store  is the set of positions  *)
(* that are 1, including positions at or beyond  len  (stale bits, spare   *)
(* words).  Scaling: a span of at most 2^E16 bits is stored with "16-bit"  *)
(* offsets (four per inventory word), one of at most 2^E32 bits with       *)
(* "32-bit" offsets (two per word), a longer one with absolute positions   *)
(* (one per word); the code has E16 = 16, E32 = 32.  Stored offsets are    *)
(* truncated to their width, as the `as u16` / `as u32` casts do.          *)
(*                                                                         *)
(* A parameter record  P = [L, M, zero, const] : L = log2 ones per         *)
(* inventory entry, M = (max) log2 words per subinventory, zero = the      *)
(* zero-selecting variant (the same code over complemented words), const = *)
(* the const-generic variant (M is used as is instead of min(M, L - 2)).   *)
(*                                                                         *)
(* Memory: an inventory word is  [v, l] :  v  its value as a whole word,   *)
(* l  its four "16-bit" lanes; a "32-bit" entry j of a word occupies lane  *)
(* 2j + 1.  Safe indexing of the code is modelled by the flag  panic       *)
(* (a constructor must not panic), unchecked reads by the flag  oob .      *)
(***************************************************************************)
EXTENDS Naturals, Sequences, FiniteSets

CONSTANTS W, E16, E32,
          Capped      \* TRUE: the ones counted in a word are bounded by num_ones - past_ones
                      \* in both phases (the repaired code); FALSE: the code as found

VARIABLES len, nw, store

T16 == 2 ^ E16
T32 == 2 ^ E32
CeilDiv(a, b) == (a + b - 1) \div b
SatSub(a, b) == IF a > b THEN a - b ELSE 0
Min2(a, b) == IF a < b THEN a ELSE b
RECURSIVE ILog2(_)
ILog2(x) == IF x <= 1 THEN 0 ELSE 1 + ILog2(x \div 2)

WordBits(k) == {b \in 0 .. (W - 1) : (k * W + b) \in store}
Src(P, k) == IF P.zero THEN (0 .. (W - 1)) \ WordBits(k) ELSE WordBits(k)
Pop(S) == Cardinality(S)
Nth(S, r) == CHOOSE x \in S : Cardinality({y \in S : y < x}) = r      \* select_in_word

\* the abstract vector: the ones (zeros) among the first len bits
AbsOnes(P) == IF P.zero THEN {i \in 0 .. (len - 1) : i \notin store} ELSE {i \in store : i < len}

SpanType(span) == IF span <= T16 THEN "U16" ELSE IF span <= T32 THEN "U32" ELSE "U64"
\* log2_ones_per_sub32: span >> 15 in the code
L2Sub32(span, l2s16) == SatSub(l2s16, ILog2(span \div (2 ^ (E16 - 1))) + 1)

Geo(P) ==
    LET l2sub == IF P.const THEN P.M ELSE Min2(P.M, SatSub(P.L, 2))
        m     == Cardinality(AbsOnes(P))        \* bits.count_ones() / count_zeros()
    IN  [opi   |-> 2 ^ P.L,                     \* ones per inventory entry
         l2sub |-> l2sub,
         ups   |-> 2 ^ l2sub,                   \* words per subinventory
         l2s16 |-> SatSub(P.L, l2sub + 2),
         nbits |-> IF len = 0 THEN 1 ELSE len,  \* max(1, bits.len())
         m     |-> m,
         isize |-> CeilDiv(m, 2 ^ P.L)]

ZeroWord == [v |-> 0, l |-> <<0, 0, 0, 0>>]
Words(n) == [k \in 1 .. n |-> ZeroWord]

\* ones of a word that the loops count
Counted(P, G, S, past) ==
    IF Capped \/ (P.zero /\ P.const) THEN Min2(Pop(S), G.m - past) ELSE Pop(S)
CountedP1(P, G, S, past) ==
    IF Capped \/ P.zero THEN Min2(Pop(S), G.m - past) ELSE Pop(S)

(***************************************************************************)
(* Phase 1: the position of every 2^L-th one, scanning the whole backend.  *)
(***************************************************************************)
RECURSIVE P1While(_, _, _, _, _)
P1While(P, G, i, ow, st) ==
    IF st.past + ow > st.nextq
    THEN P1While(P, G, i, ow, [st EXCEPT !.entries = Append(@, i * W + Nth(Src(P, i), st.nextq - st.past)),
                                         !.nextq = @ + G.opi])
    ELSE st

RECURSIVE P1Loop(_, _, _, _)
P1Loop(P, G, i, st) ==
    IF i = nw THEN st
    ELSE LET ow  == CountedP1(P, G, Src(P, i), st.past)
             st1 == P1While(P, G, i, ow, st)
         IN  P1Loop(P, G, i + 1, [st1 EXCEPT !.past = @ + ow])

(***************************************************************************)
(* Spill size estimate (between the phases).                               *)
(***************************************************************************)
SpillOfEntry(G, pos, e) ==
    LET span == pos[e + 1] - pos[e]
        ones == Min2(G.m - (e - 1) * G.opi, G.opi)
    IN  CASE SpanType(span) = "U32" ->
               LET l2 == L2Sub32(span, G.l2s16) IN
               SatSub(CeilDiv(CeilDiv(ones, 2 ^ l2), 2), G.ups - 1)
          [] SpanType(span) = "U64" -> SatSub(ones - 1, G.ups - 1)
          [] OTHER -> 0

RECURSIVE SpillSum(_, _, _)
SpillSum(G, pos, e) == IF e = 0 THEN 0 ELSE SpillOfEntry(G, pos, e) + SpillSum(G, pos, e - 1)

(***************************************************************************)
(* Phase 2: fill the subinventory of entry e (and the spill).              *)
(* C = per-entry constants, S = loop state.                                *)
(***************************************************************************)
SetLane(ws, widx, lane, val) == [ws EXCEPT ![widx].l[lane] = val]
SetV(ws, widx, val) == [ws EXCEPT ![widx].v = val]

RECURSIVE Inner(_, _)
Inner(C, S) ==
    LET ow == Counted(C.P, C.G, S.word, S.past) IN
    IF ~(S.past + ow > S.nextq) THEN S
    ELSE
    LET bi == S.widx * W + Nth(S.word, S.nextq - S.past) IN
    IF bi >= C.end THEN [S EXCEPT !.brk = TRUE]
    ELSE
    LET off == bi - C.start
        next(S1) == IF (IF C.typ = "U64" THEN S1.sidx = C.G.opi ELSE S1.sidx * C.q = C.G.opi)
                    THEN [S1 EXCEPT !.brk = TRUE]
                    ELSE Inner(C, [S1 EXCEPT !.nextq = @ + C.q])
    IN
    CASE C.typ = "U16" ->
           \* inventory[start + 1 .. end] viewed as u16: 4 * ups slots, safe indexing
           IF S.sidx >= 4 * C.G.ups THEN [S EXCEPT !.panic = TRUE, !.brk = TRUE]
           ELSE next([S EXCEPT !.sub = SetLane(@, (S.sidx \div 4) + 1, (S.sidx % 4) + 1, off % T16),
                               !.sidx = @ + 1])
      [] C.typ = "U32" ->
           IF S.sidx < C.locally
           THEN \* inventory[start + 2 .. end] viewed as u32
                next([S EXCEPT !.sub = SetLane(@, (S.sidx \div 2) + 2, 2 * (S.sidx % 2) + 1, off % T32),
                               !.sidx = @ + 1])
           ELSE \* spill[spilled ..] viewed as u32, safe slicing and indexing
                LET j == S.sidx - C.locally
                    w == S.spilled + (j \div 2) + 1
                IN  IF w > Len(S.spill) THEN [S EXCEPT !.panic = TRUE, !.brk = TRUE]
                    ELSE next([S EXCEPT !.spill = SetLane(@, w, 2 * (j % 2) + 1, off % T32), !.sidx = @ + 1])
      [] C.typ = "U64" ->
           IF S.sidx < C.G.ups
           THEN next([S EXCEPT !.sub = SetV(@, S.sidx + 1, bi), !.sidx = @ + 1])
           ELSE IF S.spilled >= Len(S.spill)           \* assert!(spilled < spill_size)
                THEN [S EXCEPT !.panic = TRUE, !.brk = TRUE]
                ELSE next([S EXCEPT !.spill = SetV(@, S.spilled + 1, bi), !.spilled = @ + 1])

RECURSIVE WordLoop(_, _)
WordLoop(C, S) ==
    LET ow == Counted(C.P, C.G, S.word, S.past)
        S1 == Inner(C, S)
    IN  IF S1.brk THEN S1
        ELSE LET S2 == [S1 EXCEPT !.past = @ + ow, !.widx = @ + 1] IN
             IF S2.widx = C.endw THEN S2
             ELSE IF S2.widx >= nw THEN [S2 EXCEPT !.panic = TRUE]      \* bits.as_ref()[word_idx]
             ELSE WordLoop(C, [S2 EXCEPT !.word = Src(C.P, S2.widx)])

\* acc = [subs, typs, spill, spilled, panic]
RECURSIVE Phase2(_, _, _, _, _)
Phase2(P, G, pos, e, acc) ==
    IF e > G.isize \/ acc.panic THEN acc
    ELSE
    LET start == pos[e]
        end   == pos[e + 1]
    IN  IF end < start \/ start \div W >= nw            \* subtraction overflow / bits.as_ref()[word_idx]
        THEN [acc EXCEPT !.panic = TRUE]
        ELSE
    LET span  == end - start
        typ   == SpanType(span)
        l2q   == CASE typ = "U16" -> G.l2s16 [] typ = "U32" -> L2Sub32(span, G.l2s16) [] OTHER -> 0
        sub0  == IF typ = "U16" THEN Words(G.ups) ELSE SetV(Words(G.ups), 1, acc.spilled)
        C     == [P |-> P, G |-> G, start |-> start, end |-> end, typ |-> typ, q |-> 2 ^ l2q,
                  endw |-> CeilDiv(end, W), locally |-> 2 * (G.ups - 1)]
        S0    == [widx |-> start \div W,
                  word |-> {b \in Src(P, start \div W) : b >= start % W},      \* clear the lower bits
                  past |-> (e - 1) * G.opi, nextq |-> (e - 1) * G.opi + 2 ^ l2q, sidx |-> 1,
                  sub |-> sub0, spill |-> acc.spill, spilled |-> acc.spilled, panic |-> FALSE, brk |-> FALSE]
        S     == WordLoop(C, S0)
        spl   == IF typ = "U32" THEN S.spilled + CeilDiv(SatSub(S.sidx, C.locally), 2) ELSE S.spilled
    IN  Phase2(P, G, pos, e + 1,
               [subs |-> Append(acc.subs, S.sub), typs |-> Append(acc.typs, typ),
                spill |-> S.spill, spilled |-> spl, panic |-> S.panic])

(***************************************************************************)
(* The constructor.  Result: pos (entry positions + the closing num_bits), *)
(* typs, subs, spill, and  panic  = some assertion or safe index failed.   *)
(***************************************************************************)
Construct(P) ==
    LET G   == Geo(P)
        p1  == P1Loop(P, G, 0, [past |-> 0, nextq |-> 0, entries |-> <<>>])
        pos == Append(p1.entries, G.nbits)
        bad1 == p1.past # G.m \/ Len(p1.entries) # G.isize        \* the two assertions of phase 1
    IN  IF bad1 \/ \E e \in 1 .. G.isize : pos[e + 1] < pos[e]
        THEN [G |-> G, pos |-> pos, typs |-> <<>>, subs |-> <<>>, spill |-> <<>>, panic |-> TRUE]
        ELSE
        LET ssize == SpillSum(G, pos, G.isize)
            r == Phase2(P, G, pos, 1, [subs |-> <<>>, typs |-> <<>>, spill |-> Words(ssize), spilled |-> 0,
                                       panic |-> FALSE])
        IN  [G |-> G, pos |-> pos, typs |-> r.typs, subs |-> r.subs, spill |-> r.spill,
             panic |-> r.panic \/ r.spilled # ssize]                \* assert_eq!(spilled, spill_size)

(***************************************************************************)
(* Queries.                                                                *)
(***************************************************************************)
\* BitVec::select_hinted / select_zero_hinted
RECURSIVE HintScan(_, _, _, _, _)
HintScan(P, widx, word, residual, reads) ==
    IF widx >= nw THEN [val |-> 0, oob |-> TRUE]
    ELSE IF residual < Pop(word) THEN [val |-> widx * W + Nth(word, residual), oob |-> FALSE]
    ELSE IF widx + 1 >= nw THEN [val |-> 0, oob |-> TRUE]
    ELSE HintScan(P, widx + 1, Src(P, widx + 1), residual - Pop(word), reads)

SelectHinted(P, rank, hintPos, hintRank) ==
    IF hintPos \div W >= nw \/ hintRank > rank THEN [val |-> 0, oob |-> TRUE]
    ELSE HintScan(P, hintPos \div W, {b \in Src(P, hintPos \div W) : b >= hintPos % W}, rank - hintRank, {})

\* select_unchecked(rank), documented for rank < number of ones (zeros)
SelectUnchecked(P, D, rank) ==
    LET G  == D.G
        e  == (rank \div G.opi) + 1
        sr == rank % G.opi
    IN  IF e > G.isize THEN [val |-> 0, oob |-> TRUE]
        ELSE
        LET p   == D.pos[e]
            sub == D.subs[e]
            typ == D.typs[e]
        IN
        CASE typ = "U16" ->
               LET k == sr \div (2 ^ G.l2s16) IN
               IF k >= 4 * G.ups THEN [val |-> 0, oob |-> TRUE]
               ELSE SelectHinted(P, rank, p + sub[(k \div 4) + 1].l[(k % 4) + 1], rank - (sr % (2 ^ G.l2s16)))
          [] typ = "U32" ->
               LET l2 == L2Sub32(D.pos[e + 1] - p, G.l2s16)
                   k  == sr \div (2 ^ l2)
               IN  IF k < (G.ups - 1) * 2
                   THEN SelectHinted(P, rank, p + sub[(k \div 2) + 2].l[2 * (k % 2) + 1], rank - (sr % (2 ^ l2)))
                   ELSE LET j == k - (G.ups - 1) * 2
                            w == sub[1].v + (j \div 2) + 1
                        IN  IF w > Len(D.spill) THEN [val |-> 0, oob |-> TRUE]
                            ELSE SelectHinted(P, rank, p + D.spill[w].l[2 * (j % 2) + 1], rank - (sr % (2 ^ l2)))
          [] typ = "U64" ->
               IF sr < G.ups
               THEN [val |-> IF sr = 0 THEN p ELSE sub[sr + 1].v, oob |-> FALSE]
               ELSE LET w == sub[1].v + sr - G.ups + 1 IN
                    IF w > Len(D.spill) THEN [val |-> 0, oob |-> TRUE]
                    ELSE [val |-> D.spill[w].v, oob |-> FALSE]

(***************************************************************************)
(* Invariants of a constructed structure D for parameters P.               *)
(***************************************************************************)
BuildOK(D) == ~D.panic

SelectOK(P, D) ==
    D.panic \/
    \A r \in 0 .. (D.G.m - 1) :
        /\ ~SelectUnchecked(P, D, r).oob
        /\ SelectUnchecked(P, D, r).val = Nth(AbsOnes(P), r)

\* words allocated: one inventory word and 2^l2sub subinventory words per entry, plus the closing one
InventoryWords(D) == D.G.isize * (D.G.ups + 1) + 1
=============================================================================
