---------------------------- MODULE Trace_Lender ----------------------------
(***************************************************************************)
(* Trace validation for the "lender" family: decides whether a recorded    *)
(* consume/rewind history of a real lender is a behaviour of Lender.       *)
(* The BEGIN line of an episode describes the lender (kind, input bytes or *)
(* items, take counts); every further line is one call.                    *)
(***************************************************************************)
EXTENDS Lender, Json, IOUtils, TLC

Rec == ndJsonDeserialize(IOEnv.TRACE)

VARIABLES l, skip
tvars == <<items, pos, pass, open, l, skip>>

TraceInit == LInit /\ l = 1 /\ skip = FALSE

Has(r, f) == f \in DOMAIN r

\* first reason for which the logged event differs from what the spec admits
\* (abort / hang / panic are admissible nowhere; neither is an I/O error)
Why(ev, x) ==
    IF ev.out # x.out THEN "outcome"
    ELSE IF x.out # "ret" THEN "ok"
    ELSE IF Has(x.exp, "r") /\ ev.r # x.exp.r THEN (IF ev.r = "err" THEN "error" ELSE "kind")
    ELSE IF Has(x.exp, "item") /\ ev.item # x.exp.item THEN "item"
    ELSE IF Has(x.exp, "res") /\ ev.res # x.exp.res THEN "items"
    ELSE IF Has(x.exp, "end") /\ ev.end # x.exp.end THEN (IF ev.end = "err" THEN "error" ELSE "end")
    ELSE "ok"

Step ==
    /\ l <= Len(Rec)
    /\ l' = l + 1
    /\ LET ev == Rec[l] IN
       IF ev.op = "BEGIN"
       THEN /\ items' = ItemsOf(ev)
            /\ pos' = 0 /\ pass' = <<>> /\ open' = FALSE
            /\ skip' = FALSE
       ELSE IF skip THEN UNCHANGED <<items, pos, pass, open, skip>>
       ELSE LET x == Eff(ev)
                w == Why(ev, x)
            IN  IF w = "ok"
                THEN Install(x.st) /\ skip' = FALSE /\ UNCHANGED items
                ELSE /\ PrintT(<<"MISMATCH", ev.ep, ev.seq, ev.op, w>>)
                     /\ skip' = TRUE
                     /\ UNCHANGED <<items, pos, pass, open>>

Finish == /\ l = Len(Rec) + 1
          /\ PrintT(<<"TRACE-END", Len(Rec)>>)
          /\ l' = l + 1
          /\ UNCHANGED <<items, pos, pass, open, skip>>

TraceNext == Step \/ Finish
TraceSpec == TraceInit /\ [][TraceNext]_tvars

TraceAccepted == TLCGet("stats").diameter = Len(Rec) + 2

TraceInv == skip \/ (TypeOK /\ PassIsPrefix)
=============================================================================
