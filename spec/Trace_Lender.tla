---------------------------- MODULE Trace_Lender ----------------------------
(***************************************************************************)
(* Trace validation for the "lender" family: decides whether a recorded    *)
(* consume/rewind history of a real lender is a behaviour of Lender.       *)
(* The BEGIN line of an episode describes the lender (kind, input bytes or *)
(* items, take counts); every further line is one call.                    *)
(***************************************************************************)
EXTENDS Lender, Json, IOUtils, TLC

Rec == ndJsonDeserialize(IOEnv.TRACE)

VARIABLES l, skip,
          corrupt, \* the episode reads a damaged compressed stream
          ref      \* damaged streams: <<>> or <<[res, end]>>, what the first complete pass yielded
tvars == <<items, pos, pass, open, l, skip, corrupt, ref>>

TraceInit == LInit /\ l = 1 /\ skip = FALSE /\ corrupt = FALSE /\ ref = <<>>

(***************************************************************************)
(* Damaged compressed streams (header field `corrupt`).  What a decoder    *)
(* yields before it notices the damage is not specified, so the first      *)
(* complete pass (a `drain` right after `open`) is the reference: it may   *)
(* end in an error, and every later pass must replay exactly that --       *)
(* the same lines, then the same end -- however much of it is consumed.    *)
(* Scripts for these inputs use open, drain, rewind and nexts(c) only.     *)
(***************************************************************************)
IsPrefixOf(a, b) == Len(a) <= Len(b) /\ a = SubSeq(b, 1, Len(a))
CorruptWhy(ev) ==
    IF ev.op = "open" THEN (IF ev.out = "ret" /\ ev.r = "ok" THEN "ok" ELSE "open")
    ELSE IF ev.out # "ret" THEN "outcome"
    ELSE IF ev.op = "rewind" THEN (IF ev.r = "ok" THEN "ok" ELSE "error")
    ELSE IF ev.op = "drain" THEN
         (IF ref = <<>> THEN (IF ev.end \in {"none", "err"} THEN "ok" ELSE "end")
          ELSE IF ev.res # ref[1].res THEN "items" ELSE IF ev.end # ref[1].end THEN "end" ELSE "ok")
    ELSE IF ev.op = "nexts" THEN
         (IF ref = <<>> THEN "bad-script"
          ELSE IF ~IsPrefixOf(ev.res, ref[1].res) THEN "items"
          ELSE IF Len(ev.res) = ev.c THEN (IF ev.end = "more" THEN "ok" ELSE "end")
          ELSE IF Len(ev.res) # Len(ref[1].res) THEN "items"
          ELSE IF ev.end # ref[1].end THEN "end" ELSE "ok")
    ELSE "bad-script"

Has(r, f) == f \in DOMAIN r

\* first reason for which the logged event differs from what the spec admits
\* (abort / hang / panic are admissible nowhere; neither is an I/O error)
Why(ev, x) ==
    IF ev.out # x.out THEN "outcome"
    ELSE IF x.out # "ret" THEN "ok"
    ELSE IF Has(x.exp, "r") /\ ev.r # x.exp.r THEN (IF ev.r = "err" THEN "error" ELSE "kind")
    ELSE IF Has(x.exp, "item") /\ ev.item # x.exp.item THEN "item"
    ELSE IF Has(x.exp, "res") /\ ev.res # x.exp.res THEN "items"
    ELSE IF Has(x.exp, "end") /\ ev.end # x.exp.end THEN (IF ev.end = "err" THEN "error" ELSE "end")
    ELSE "ok"

Step ==
    /\ l <= Len(Rec)
    /\ l' = l + 1
    /\ LET ev == Rec[l] IN
       IF ev.op = "BEGIN"
       THEN /\ items' = (IF "corrupt" \in DOMAIN ev THEN <<>> ELSE ItemsOf(ev))
            /\ pos' = 0 /\ pass' = <<>> /\ open' = FALSE
            /\ skip' = FALSE /\ corrupt' = ("corrupt" \in DOMAIN ev) /\ ref' = <<>>
       ELSE IF skip THEN UNCHANGED <<items, pos, pass, open, skip, corrupt, ref>>
       ELSE IF corrupt
       THEN LET w == CorruptWhy(ev) IN
            IF w = "ok"
            THEN /\ ref' = (IF ev.op = "drain" /\ ref = <<>> THEN <<[res |-> ev.res, end |-> ev.end]>> ELSE ref)
                 /\ UNCHANGED <<items, pos, pass, open, skip, corrupt>>
            ELSE /\ PrintT(<<"MISMATCH", ev.ep, ev.seq, ev.op, w>>)
                 /\ skip' = TRUE /\ UNCHANGED <<items, pos, pass, open, corrupt, ref>>
       ELSE LET x == Eff(ev)
                w == Why(ev, x)
            IN  IF w = "ok"
                THEN Install(x.st) /\ skip' = FALSE /\ UNCHANGED <<items, corrupt, ref>>
                ELSE /\ PrintT(<<"MISMATCH", ev.ep, ev.seq, ev.op, w>>)
                     /\ skip' = TRUE
                     /\ UNCHANGED <<items, pos, pass, open, corrupt, ref>>

Finish == /\ l = Len(Rec) + 1
          /\ PrintT(<<"TRACE-END", Len(Rec)>>)
          /\ l' = l + 1
          /\ UNCHANGED <<items, pos, pass, open, skip, corrupt, ref>>

TraceNext == Step \/ Finish
TraceSpec == TraceInit /\ [][TraceNext]_tvars

TraceAccepted == TLCGet("stats").diameter = Len(Rec) + 2

TraceInv == skip \/ (TypeOK /\ PassIsPrefix)
=============================================================================
