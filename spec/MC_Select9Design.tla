-------------------------- MODULE MC_Select9Design --------------------------
(***************************************************************************)
(* Select9Design over a menu of structured vectors: a prefix of zeros,     *)
(* then segments of  bits  bits holding  ones  evenly spaced ones -- 512   *)
(* ones over 512 ... 140000 bits put an inventory entry in each of the six *)
(* span classes --, a last partial segment, padding that moves the word    *)
(* count through the residues modulo four, clean or dirty backend beyond   *)
(* the length (stale ones in the last word and one spare word of ones).    *)
(* BuildSelect9 constructs; the invariants: the constructor does not       *)
(* panic, select_unchecked(r) is the r-th one of the first len bits for    *)
(* the ranks around every inventory quantum and a sample (every rank when  *)
(* there are at most 128 ones) , no unchecked read leaves its array.       *)
(***************************************************************************)
EXTENDS Select9Design, TLC

CONSTANTS Prefixes, Fulls, MaxFull, Lasts, Pads

VARIABLES built, D
mcvars == <<bk, av, len, built, D>>

\* runs of a segment starting at  off  (c0 ones before it): n ones evenly spaced over
\* bits  bits; a run is <<start, end, ones before it>>
SegRuns(off, bits, n, c0) ==
    IF n = 0 THEN <<>>
    ELSE LET d == bits \div n IN
         IF d <= 1 THEN << <<off, off + n, c0>> >>
         ELSE [j \in 1 .. n |-> <<off + (j - 1) * d, off + (j - 1) * d + 1, c0 + j - 1>>]

RECURSIVE PartsRuns(_, _, _)
PartsRuns(off, parts, c0) ==
    IF parts = <<>> THEN <<>>
    ELSE SegRuns(off, parts[1][1], parts[1][2], c0)
         \o PartsRuns(off + parts[1][1], Tail(parts), c0 + parts[1][2])

RECURSIVE PartsBits(_)
PartsBits(parts) == IF parts = <<>> THEN 0 ELSE parts[1][1] + PartsBits(Tail(parts))
RECURSIVE PartsOnes(_)
PartsOnes(parts) == IF parts = <<>> THEN 0 ELSE parts[1][2] + PartsOnes(Tail(parts))

VecOfRuns(n, runs, total) ==
    LET k == Len(runs) IN
    [len |-> n, s |-> [j \in 1 .. k |-> runs[j][1]], e |-> [j \in 1 .. k |-> runs[j][2]],
     c |-> [j \in 1 .. (k + 1) |-> IF j <= k THEN runs[j][3] ELSE total]]

\* last (partial) segments <<bits, ones>>
LastsQ == { <<1, 0>>, <<1, 1>>, <<200, 3>>, <<70000, 3>>, <<140000, 1>>, <<5000, 511>>, <<140000, 511>>, <<700, 100>> }
LastsT == LastsQ \cup { <<64, 64>>, <<70000, 511>>, <<20000, 200>>, <<300000, 2>>, <<1, 0>> }

FullSeqs == UNION { [1 .. n -> Fulls] : n \in 0 .. MaxFull }

MCInit ==
    /\ built = FALSE /\ D = [inv |-> <<>>, regs |-> <<>>]
    /\ \E p \in Prefixes, fs \in FullSeqs, last \in Lasts, pad \in Pads, dirty \in BOOLEAN :
         LET parts == [j \in 1 .. Len(fs) |-> <<fs[j], 512>>] \o <<last>>
             n     == p + PartsBits(parts) + pad
             runs  == PartsRuns(p, parts, 0)
             tot   == PartsOnes(parts)
             nwb   == ((n + 63) \div 64) + (IF dirty THEN 1 ELSE 0)
         IN  /\ len = n
             /\ av = VecOfRuns(n, runs, tot)
             /\ bk = IF dirty /\ nwb * 64 > n
                     THEN VecOfRuns(nwb * 64, Append(runs, <<n, nwb * 64, tot>>), tot + nwb * 64 - n)
                     ELSE VecOfRuns(nwb * 64, runs, tot)

BuildSelect9 == ~built /\ built' = TRUE /\ D' = Construct9 /\ UNCHANGED <<bk, av, len>>

MCNext == BuildSelect9
MCSpec == MCInit /\ [][MCNext]_mcvars

QueryRanks ==
    IF M9 <= 128 THEN 0 .. (M9 - 1)
    ELSE {r \in 0 .. (M9 - 1) : r % 512 \in {0, 1, 255, 510, 511} \/ r % 37 = 0 \/ r >= M9 - 3}

DesignOK ==
    built =>
        /\ ~BuildPanics(D)
        /\ \A r \in QueryRanks :
             /\ ~SelectUnchecked(D, r).oob
             /\ SelectUnchecked(D, r).val = Select(av, r)

\* C11: the words Select9 allocates stay within 37.5% of the bit vector plus three words
SpaceOK == built => 64 * Select9Words <= (3 * len) \div 8 + 3 * 64
=============================================================================
