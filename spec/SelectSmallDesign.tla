-------------------------- MODULE SelectSmallDesign --------------------------
(***************************************************************************)
(* Scaled transcription of SelectSmall / SelectZeroSmall                   *)
(* (src/rank_sel/select_small.rs, select_zero_small.rs: with_inv, _new,    *)
(* select_unchecked / select_zero_unchecked, complete_select) over the     *)
(* counters of RankSmall as transcribed in RankDesign.                     *)
(*                                                                         *)
(* Scaling: a variant [wpb, wps, ubw] gives words per block, per sub-block *)
(* and per *superblock* (2^32 bits = 2^26 words in the code; here one or   *)
(* two blocks, so that the clipping of the inventory search to the         *)
(* superblock of the rank -- unreachable below 2^32 bits on the real       *)
(* structures -- is exercised on every small vector).  Inventory entries   *)
(* are positions relative to their superblock (u32 in the code).           *)
(* zero = TRUE is the zero-selecting twin (complemented words, counters    *)
(* turned into zero counts on the fly).                                    *)
(* Safe indexing / slicing / debug assertions are rendered by  panic ,     *)
(* unchecked reads outside their array by  oob .                           *)
(***************************************************************************)
EXTENDS RankDesign

CONSTANT Aligned,    \* TRUE: inventory_begin gets one entry per superblock (the repaired code); FALSE: only
                     \* superblocks holding an inventory element get one (the code as found)
         Clipped     \* TRUE: the block search of the last inventory entry is clipped to the superblock of
                     \* the rank (the repaired code); FALSE: the code as found

SMin(a, b) == IF a < b THEN a ELSE b
RECURSIVE SILog2(_)
SILog2(x) == IF x <= 1 THEN 0 ELSE 1 + SILog2(x \div 2)

SSrc(zero, k) == IF zero THEN (0 .. (W - 1)) \ WordBits(k) ELSE WordBits(k)
SNth(S, r) == CHOOSE x \in S : Cardinality({y \in S : y < x}) = r

SAbsOnes(zero) == IF zero THEN {i \in 0 .. (len - 1) : i \notin store} ELSE AbsOnes

BlockBits(var) == var.wpb * W
SubBits(var)   == var.wps * W
SuperBits(var) == var.ubw * W

(***************************************************************************)
(* with_inv + _new.  rs = the RankSmall structure (RankDesign!Construct).  *)
(***************************************************************************)
SmallGeo(var, zero, rs, bpi) ==
    LET m == IF zero THEN len - rs.num ELSE rs.num
        L == SILog2((LET x == CeilDiv(m * bpi * BlockBits(var), IF len = 0 THEN 1 ELSE len) IN IF x < 1 THEN 1 ELSE x))
    IN  [m |-> m, L |-> L, opi |-> 2 ^ L]

\* inner while over one word; st = [past, nextq, inv, begin, first]
RECURSIVE SWhile(_, _, _, _, _, _)
SWhile(G, zero, i, base, ow, st) ==
    IF st.past + ow > st.nextq
    THEN LET idx == (i - base) * W + SNth(SSrc(zero, i), st.nextq - st.past) IN
         SWhile(G, zero, i, base, ow,
                [st EXCEPT !.begin = IF st.first /\ ~Aligned THEN Append(@, Len(st.inv)) ELSE @,
                           !.first = FALSE,
                           !.inv = Append(@, idx),
                           !.nextq = @ + G.opi])
    ELSE st

\* all backend words, in chunks of one superblock
RECURSIVE SLoop(_, _, _, _, _)
SLoop(var, G, zero, i, st) ==
    IF i = nw THEN st
    ELSE LET st0 == IF i % var.ubw = 0
                    THEN [st EXCEPT !.first = TRUE, !.begin = IF Aligned THEN Append(@, Len(st.inv)) ELSE @]
                    ELSE st
             ow  == SMin(Pop(SSrc(zero, i)), G.m - st0.past)          \* bounded by num_ones - past_ones
             st1 == SWhile(G, zero, i, (i \div var.ubw) * var.ubw, ow, st0)
         IN  SLoop(var, G, zero, i + 1, [st1 EXCEPT !.past = @ + ow])

ConstructSmall(var, zero, rs, bpi) ==
    LET G == SmallGeo(var, zero, rs, bpi)
        r == SLoop(var, G, zero, 0, [past |-> 0, nextq |-> 0, inv |-> <<>>, begin |-> <<>>, first |-> TRUE])
    IN  [G |-> G,
         inv   |-> IF r.inv = <<>> THEN <<0>> ELSE r.inv,
         begin |-> IF r.inv = <<>> THEN <<0>> ELSE Append(r.begin, nw),     \* small_counters.as_ref().len()
         panic |-> r.past # G.m]                                          \* assert_eq!(num_ones, past_ones)

(***************************************************************************)
(* Queries.                                                                *)
(***************************************************************************)
\* linear_partition_point: index (0-based) of the first element for which pred fails
LPP(seq, pred(_, _)) ==
    LET bad == {i \in 1 .. Len(seq) : ~pred(i - 1, seq[i])} IN
    IF bad = {} THEN Len(seq) ELSE (CHOOSE i \in bad : \A j \in bad : i <= j) - 1

RECURSIVE SHintScan(_, _, _, _)
SHintScan(zero, widx, word, residual) ==
    IF residual < Pop(word) THEN [val |-> widx * W + SNth(word, residual), oob |-> FALSE]
    ELSE IF widx + 1 >= nw THEN [val |-> 0, oob |-> TRUE]
    ELSE SHintScan(zero, widx + 1, SSrc(zero, widx + 1), residual - Pop(word))

SSelectHinted(zero, rank, hintPos, hintRank) ==
    IF hintPos \div W >= nw \/ hintRank > rank THEN [val |-> 0, oob |-> TRUE]
    ELSE SHintScan(zero, hintPos \div W, {b \in SSrc(zero, hintPos \div W) : b >= hintPos % W}, rank - hintRank)

Bad == [val |-> 0, oob |-> TRUE, panic |-> FALSE]
Panicked == [val |-> 0, oob |-> FALSE, panic |-> TRUE]

\* select_unchecked / select_zero_unchecked, for rank < number of ones (zeros), in four stages
\* (each stage receives the values computed so far in the record  a ).
\* ones (zeros) before superblock i, given its upper count x
UBefore(var, zero, i, x) == IF zero THEN i * SuperBits(var) - x ELSE x

\* stage 1: the superblock of the rank and the inventory entry
Stage1(var, zero, rs, D, rank) ==
    LET ub == LPP(rs.upper, LAMBDA i, x : UBefore(var, zero, i, x) <= rank)
        invIdx == rank \div D.G.opi
        ib == LPP(D.begin, LAMBDA i, x : x <= invIdx)
    IN  IF ub = 0 \/ ib = 0 \/ invIdx >= Len(D.inv) THEN [ok |-> FALSE]      \* ... - 1 underflows
        ELSE [ok |-> TRUE, u |-> ub - 1, upOnes |-> rs.upper[ub],
              upRank |-> UBefore(var, zero, ub - 1, rs.upper[ub]), invIdx |-> invIdx, same |-> (ib - 1) = (ub - 1)]

\* stage 2: the range of blocks to search
Stage2(var, rs, D, rank, a) ==
    LET SB    == SuperBits(var)
        BB    == BlockBits(var)
        local == rank - a.upRank
        opt   == IF a.same THEN a.invIdx * D.G.opi - a.upRank ELSE 0
        invPos == IF a.same THEN D.inv[a.invIdx + 1] + a.u * SB ELSE a.u * SB
        nb    == LPP(D.begin, LAMBDA i, x : x <= a.invIdx + 1)
        lastB == IF a.invIdx + 1 < Len(D.inv)
                 THEN (IF nb - 1 = a.u THEN CeilDiv(D.inv[a.invIdx + 2] + a.u * SB, BB) ELSE (a.u + 1) * (SB \div BB))
                 ELSE IF Clipped THEN SMin(CeilDiv(len, BB), (a.u + 1) * (SB \div BB)) ELSE CeilDiv(len, BB)
    IN  IF (a.same /\ a.invIdx * D.G.opi < a.upRank) \/ opt > local THEN [ok |-> FALSE, panic |-> FALSE]
        ELSE LET b0 == invPos \div BB + (local - opt) \div BB IN
             \* counts[block_idx..last_block_idx] (safe slicing) and the debug assertions
             IF b0 >= Len(rs.counts) \/ b0 >= lastB \/ lastB > Len(rs.counts) THEN [ok |-> FALSE, panic |-> TRUE]
             ELSE [ok |-> TRUE, panic |-> FALSE, local |-> local, b0 |-> b0, lastB |-> lastB]

\* ones (zeros) before block k: relative to the superblock for ones, absolute for zeros
BlockBefore(var, zero, rs, a, k) ==
    IF zero THEN k * BlockBits(var) - (a.upOnes + rs.counts[k + 1].abs) ELSE rs.counts[k + 1].abs

\* stage 3: the block (partition_point / linear_partition_point presuppose a prefix)
Stage3(var, zero, rs, rank, a, b) ==
    LET target == IF zero THEN rank ELSE b.local
        cnt    == Cardinality({k \in b.b0 .. (b.lastB - 1) : BlockBefore(var, zero, rs, a, k) <= target})
        prefix == \A k \in b.b0 .. (b.lastB - 1) : (BlockBefore(var, zero, rs, a, k) <= target) <=> (k < b.b0 + cnt)
        blk    == b.b0 + cnt - 1
    IN  IF cnt = 0 \/ ~prefix THEN [ok |-> FALSE]
        ELSE LET hintPos == blk * BlockBits(var)
                 cabs    == rs.counts[blk + 1].abs
                 hintRank == IF zero THEN hintPos - (a.upOnes + cabs) ELSE a.upRank + cabs
             IN  IF hintRank > rank THEN [ok |-> FALSE]
                 ELSE [ok |-> TRUE, c |-> rs.counts[blk + 1], hintPos |-> hintPos, hintRank |-> hintRank]

\* ones (zeros) of the block before sub-block j
RelBefore(var, zero, c, j) == IF zero THEN j * SubBits(var) - Rel(c, j) ELSE Rel(c, j)

\* stage 4: complete_select
Stage4(var, zero, rank, d) ==
    LET rib  == rank - d.hintRank
        nsub == var.wpb \div var.wps
        off  == Cardinality({j \in 1 .. (nsub - 1) : RelBefore(var, zero, d.c, j) <= rib})        \* ULEQ_STEP
        hp   == d.hintPos + off * SubBits(var)
        rb   == RelBefore(var, zero, d.c, off)
    IN  IF var.wps = 1
        THEN \* the <2, 9> layout: the word is read directly
             IF hp \div W >= nw \/ rib - rb >= Pop(SSrc(zero, hp \div W)) THEN Bad
             ELSE [val |-> hp + SNth(SSrc(zero, hp \div W), rib - rb), oob |-> FALSE, panic |-> FALSE]
        ELSE LET h == SSelectHinted(zero, rank, hp, d.hintRank + rb) IN
             [val |-> h.val, oob |-> h.oob, panic |-> FALSE]

SelectSmallU(var, zero, rs, D, rank) ==
    LET a == Stage1(var, zero, rs, D, rank) IN
    IF ~a.ok THEN Bad ELSE
    LET b == Stage2(var, rs, D, rank, a) IN
    IF ~b.ok THEN (IF b.panic THEN Panicked ELSE Bad) ELSE
    LET d == Stage3(var, zero, rs, rank, a, b) IN
    IF ~d.ok THEN Bad ELSE Stage4(var, zero, rank, d)

SmallSelectOK(var, zero, rs, D) ==
    /\ ~D.panic
    /\ \A r \in 0 .. (D.G.m - 1) :
         LET q == SelectSmallU(var, zero, rs, D, r) IN
         /\ ~q.oob /\ ~q.panic
         /\ q.val = SNth(SAbsOnes(zero), r)
=============================================================================
