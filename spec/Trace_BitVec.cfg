SPECIFICATION TraceSpec
CONSTANT W = 64
INVARIANT TraceInv
POSTCONDITION TraceAccepted
CHECK_DEADLOCK FALSE
