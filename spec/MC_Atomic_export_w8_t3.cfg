SPECIFICATION MCSpec
CONSTANTS
  InstOf <- Ident
  W = 8
  Widths = {3, 5}
  NThreads = {3}
  Menu = {"near"}
  AllValues = FALSE
  Rots = {0}
  PatSet = {"alt"}
  Boundaries = {1}
  NearFields = 4
  EFN = {}
  EFMaxThreads = 3
  MaxT = 3
  Export = TRUE
INVARIANTS Emit
CHECK_DEADLOCK FALSE
