\* NOT part of any plan: the design before commit 794b9f8 (store sharded with the bits of the
\* previous set_up_shards). TLC must report a violation of InvOkIsWhole.
SPECIFICATION MCSpec
CONSTANTS
  MaxN = 3
  Thr = {2}
  MaxPass = 1
  MaxTransient = 0
  Order = "hint-first"
  Export = FALSE
INVARIANTS DesignAccepted InvOkIsWhole InvHintIrrelevant
CHECK_DEADLOCK FALSE
