SPECIFICATION MCSpec
CONSTANTS
  W = 2
  E16 = 1
  E32 = 2
  Capped = TRUE
  MaxWords = 4
  Ls = {0, 1, 2, 3}
  Ms = {0, 1, 2}
INVARIANTS DesignOK
CHECK_DEADLOCK FALSE
