-------------------------------- MODULE Peel --------------------------------
(***************************************************************************)
(* Design of the shard solver used above 800000 keys (property C07,        *)
(* mechanism "per-shard peeling ... and reverse-order assignment"):        *)
(* VBuilder::peel_by_sig_vals_low_mem followed by VBuilder::assign,        *)
(* transcribed at a small scale.                                           *)
(*                                                                         *)
(* A shard is a sequence of edges; edge k is a triple of distinct vertices *)
(* (side 0, 1, 2) with a value.  The XorGraph keeps per vertex the degree, *)
(* the XOR of the sides and the XOR of the edge identifiers of the         *)
(* incident edges (Djamal's trick): when the degree is one these are the   *)
(* side and the identifier of the only incident edge.  `zero` clears the   *)
(* degree of a peeled vertex but leaves side and identifier in place: the  *)
(* assignment phase reads them back.  The DoubleStack holds the visit      *)
(* stack (lower) and the peeled vertices (upper) in one array of NV cells. *)
(*                                                                         *)
(* Checked for every shard of at most MaxE edges over NV vertices, every   *)
(* value assignment, and cells that start all-zero (functions) or with     *)
(* arbitrary content (filters are pre-filled with random bits):            *)
(*   Solved    if all edges are peeled then after the assignment every     *)
(*             edge satisfies  data[v0] XOR data[v1] XOR data[v2] = value  *)
(*             (what VFunc::get computes);                                 *)
(*   NoOOB     the two stacks never collide and no vertex outside          *)
(*             0 .. NV-1 is touched;                                       *)
(*   Honest    the solver reports failure iff the hypergraph has a         *)
(*             non-empty 2-core (so a failure is never masked).            *)
(***************************************************************************)
EXTENDS Naturals, Sequences, FiniteSets, Bitwise

CONSTANTS NV,      \* vertices 0 .. NV-1
          MaxE,    \* at most MaxE edges
          VBits    \* values are VBits-bit numbers

Verts == 0 .. (NV - 1)
\* edges as in a fuse graph: sides in increasing vertex order
Triples == {t \in Verts \X Verts \X Verts : t[1] < t[2] /\ t[2] < t[3]}
Vals == 0 .. (2 ^ VBits - 1)

VARIABLES edges,   \* sequence of triples
          vals,    \* sequence of values
          deg, sx, xe,       \* XorGraph: degree, XOR of sides, XOR of edge ids (1-based)
          lower, upper,      \* DoubleStack
          data,              \* cells of the shard
          pc, todo, oob
pvars == <<edges, vals, deg, sx, xe, lower, upper, data, pc, todo, oob>>

NE == Len(edges)

\* the graph after adding every edge (XorGraph::add)
RECURSIVE AddAll(_, _, _)
AddAll(g, k, s) ==
    IF k > NE THEN g
    ELSE IF s > 2 THEN AddAll(g, k + 1, 0)
    ELSE LET v == edges[k][s + 1]
         IN  AddAll([deg |-> [g.deg EXCEPT ![v] = @ + 1],
                     sx  |-> [g.sx EXCEPT ![v] = @ ^^ s],
                     xe  |-> [g.xe EXCEPT ![v] = @ ^^ k]], k, s + 1)

Zero == [v \in Verts |-> 0]

\* vertices of degree one, in increasing order (the preload loop)
RECURSIVE DegOne(_, _)
DegOne(d, v) == IF v >= NV THEN <<>>
                ELSE (IF d[v] = 1 THEN <<v>> ELSE <<>>) \o DegOne(d, v + 1)

PInit ==
    /\ edges \in UNION {[1 .. n -> Triples] : n \in 0 .. MaxE}
    /\ vals \in [1 .. Len(edges) -> Vals]
    /\ LET g == AddAll([deg |-> Zero, sx |-> Zero, xe |-> Zero], 1, 0)
       IN  deg = g.deg /\ sx = g.sx /\ xe = g.xe /\ lower = DegOne(g.deg, 0)
    /\ upper = <<>>
    /\ data \in {[v \in Verts |-> 0], [v \in Verts |-> (v * 5 + 3) % (2 ^ VBits)]}
    /\ pc = "peel" /\ todo = <<>> /\ oob = FALSE

\* remove edge k seen from side s0: the two other sides (remove_edge!)
Others(s0) == CASE s0 = 0 -> <<1, 2>> [] s0 = 1 -> <<0, 2>> [] s0 = 2 -> <<0, 1>>

\* one iteration of `while let Some(v) = visit_stack.pop_lower()`
PeelStep ==
    /\ pc = "peel" /\ lower # <<>>
    /\ LET v    == lower[Len(lower)]
           rest == SubSeq(lower, 1, Len(lower) - 1)
       IN  IF deg[v] = 0
           THEN lower' = rest /\ UNCHANGED <<deg, sx, xe, upper, oob>>
           ELSE LET k  == xe[v]
                    s0 == sx[v]
                IN  IF k < 1 \/ k > NE \/ s0 > 2 \/ deg[v] # 1
                    THEN oob' = TRUE /\ lower' = rest /\ UNCHANGED <<deg, sx, xe, upper>>
                    ELSE LET o  == Others(s0)
                             w1 == edges[k][o[1] + 1]
                             w2 == edges[k][o[2] + 1]
                             \* zero(v), then remove the edge from the two other vertices
                             d1 == [deg EXCEPT ![v] = 0]
                             p1 == IF d1[w1] = 2 THEN <<w1>> ELSE <<>>
                             d2 == [d1 EXCEPT ![w1] = @ - 1]
                             p2 == IF d2[w2] = 2 THEN <<w2>> ELSE <<>>
                             d3 == [d2 EXCEPT ![w2] = @ - 1]
                         IN  /\ deg' = d3
                             /\ sx' = [sx EXCEPT ![w1] = @ ^^ o[1], ![w2] = @ ^^ o[2]]
                             /\ xe' = [xe EXCEPT ![w1] = @ ^^ k, ![w2] = @ ^^ k]
                             /\ upper' = <<v>> \o upper           \* push_upper
                             /\ lower' = rest \o p1 \o p2         \* push_lower
                             /\ oob' = (oob \/ d1[w1] = 0 \/ d2[w2] = 0
                                            \/ Len(rest \o p1 \o p2) + Len(upper) + 1 > NV)
    /\ UNCHANGED <<edges, vals, data, pc, todo>>

PeelEnd ==
    /\ pc = "peel" /\ lower = <<>>
    /\ IF Len(upper) # NE THEN pc' = "failed" /\ todo' = <<>>
       ELSE pc' = "assign" /\ todo' = upper           \* iter_upper: last peeled first
    /\ UNCHANGED <<edges, vals, deg, sx, xe, lower, upper, data, oob>>

\* one iteration of the loop of `assign`
AssignStep ==
    /\ pc = "assign" /\ todo # <<>>
    /\ LET v  == todo[1]
           k  == xe[v]             \* edge_and_side(v): left in place by zero()
           s0 == sx[v]
       IN  IF k < 1 \/ k > NE \/ s0 > 2 \/ edges[k][s0 + 1] # v
           THEN oob' = TRUE /\ UNCHANGED data
           ELSE LET o == Others(s0)
                    x == data[edges[k][o[1] + 1]] ^^ data[edges[k][o[2] + 1]]
                IN  data' = [data EXCEPT ![v] = vals[k] ^^ x] /\ UNCHANGED oob
    /\ todo' = Tail(todo)
    /\ UNCHANGED <<edges, vals, deg, sx, xe, lower, upper, pc>>

AssignEnd == /\ pc = "assign" /\ todo = <<>> /\ pc' = "done"
             /\ UNCHANGED <<edges, vals, deg, sx, xe, lower, upper, data, todo, oob>>

PNext == PeelStep \/ PeelEnd \/ AssignStep \/ AssignEnd
PSpec == PInit /\ [][PNext]_pvars /\ WF_pvars(PNext)

(***************************************************************************)
(* Properties                                                              *)
(***************************************************************************)
Get(k) == (data[edges[k][1]] ^^ data[edges[k][2]]) ^^ data[edges[k][3]]
Solved == pc = "done" => \A k \in 1 .. NE : Get(k) = vals[k]
NoOOB  == ~oob /\ Len(lower) + Len(upper) <= NV

\* the 2-core, computed directly from the definition
RECURSIVE Core(_)
Core(S) == LET leaf == {k \in S : \E s \in 1 .. 3 :
                            \A j \in S \ {k} : \A t \in 1 .. 3 : edges[j][t] # edges[k][s]}
           IN  IF leaf = {} THEN S ELSE Core(S \ leaf)
Honest == /\ pc = "failed" => Core(1 .. NE) # {}
          /\ pc \in {"assign", "done"} => Core(1 .. NE) = {}

Termination == <>(pc \in {"done", "failed"})
=============================================================================
