------------------------------ MODULE Trace_Mod2 ------------------------------
(***************************************************************************)
(* Trace validation for the "mod2" family: decides whether a recorded      *)
(* execution of Modulo2System is admitted by Mod2.  The system of an       *)
(* episode is immutable and lives in its BEGIN event; the only state is    *)
(* `cur`, the index of that event (large inputs stay out of the state).    *)
(* Handlers are total: a line that the specification does not admit prints *)
(* MISMATCH and the rest of its episode is skipped.                        *)
(***************************************************************************)
EXTENDS Mod2, Json, IOUtils, TLC

Rec == ndJsonDeserialize(IOEnv.TRACE)

VARIABLES l, skip, cur, nseq          \* nseq: the seq the next event of the episode must carry
tvars == <<l, skip, cur, nseq>>

SysAt(k) == [nv |-> Rec[k].nv, eqs |-> Rec[k].eqs]

TraceInit == l = 1 /\ skip = FALSE /\ cur = 0 /\ nseq = 0

Step ==
    /\ l <= Len(Rec)
    /\ l' = l + 1
    /\ LET ev == Rec[l] IN
       IF ev.op = "BEGIN"
       THEN cur' = l /\ skip' = FALSE /\ nseq' = ev.seq + 1
       ELSE IF skip \/ cur = 0 THEN UNCHANGED <<skip, cur, nseq>>
       ELSE LET w == IF ev.seq # nseq THEN "event-lost" ELSE Why(ev, SysAt(cur), Rec[cur].W)
            IN  IF w = "ok"
                THEN UNCHANGED <<skip, cur>> /\ nseq' = nseq + 1
                ELSE /\ PrintT(<<"MISMATCH", ev.ep, ev.seq, ev.op, w>>)
                     /\ skip' = TRUE
                     /\ UNCHANGED <<cur, nseq>>

Finish == /\ l = Len(Rec) + 1
          /\ PrintT(<<"TRACE-END", Len(Rec)>>)
          /\ l' = l + 1
          /\ UNCHANGED <<skip, cur, nseq>>

TraceNext == Step \/ Finish
TraceSpec == TraceInit /\ [][TraceNext]_tvars

\* every line was consumed (diameter counts the initial state and Finish)
TraceAccepted == TLCGet("stats").diameter = Len(Rec) + 2
=============================================================================
