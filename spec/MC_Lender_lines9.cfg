\* design check (no export): every history of 5 operations of the four kinds over the
\* input menu, PassIsPrefix; Lines = LinesRef on every string over {a, LF, CR} of <= 7 bytes
SPECIFICATION MCSpec
CONSTANTS
  Depth = 6
  KindMenu = {"line_cursor", "fromiter", "range"}
  TakeMenu <- Takes5
  WithNexts = TRUE
  LinesLen = 9
  Export = FALSE
INVARIANTS Inv LinesOK
CHECK_DEADLOCK FALSE
