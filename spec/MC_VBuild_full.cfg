SPECIFICATION MCSpec
CONSTANTS
  MaxN = 6
  Thr = {2, 5}
  MaxPass = 3
  MaxTransient = 2
  Order = "fixed"
  Export = FALSE
INVARIANTS DesignAccepted InvOkIsWhole InvErrorsSurface InvDupBound InvHintIrrelevant ResultAsExpected AbstractMap ErrorsAreJustified Bounded
CHECK_DEADLOCK FALSE
