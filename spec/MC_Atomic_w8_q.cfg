SPECIFICATION MCSpec
CONSTANTS
  InstOf <- Ident
  W = 8
  Widths = {0, 1, 2, 3, 4, 5, 6, 7, 8}
  NThreads = {2, 3}
  Menu = {"near", "ef"}
  AllValues = FALSE
  Rots = {0, 1}
  PatSet = {"ones", "alt"}
  Boundaries = {1}
  NearFields = 4
  EFN = {2, 3}
  EFMaxThreads = 3
  MaxT = 3
  Export = FALSE
VIEW View
INVARIANTS InstancesOK TypeOK NoOOB Frame NoInterference SwapLinearizable EqualsSequential
CHECK_DEADLOCK FALSE
