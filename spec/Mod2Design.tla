----------------------------- MODULE Mod2Design -----------------------------
(***************************************************************************)
(* Design-level transcription of src/utils/mod2_sys.rs:                    *)
(*                                                                         *)
(*   AddPtr           Modulo2Equation::add_ptr (sorted-merge XOR)          *)
(*   Echelon, Gauss   Modulo2System::echelon_form / gaussian_elimination   *)
(*   Setup, Lazy      Modulo2System::setup / lazy_gaussian_elimination     *)
(*                    (variable weights, equation priorities, the stack of *)
(*                    light equations, the dense remainder handed to       *)
(*                    Gauss, pivot back-substitution)                      *)
(*                                                                         *)
(* Arrays are sequences (element x of a Rust vector is element x + 1);     *)
(* every read of the code that is bounds-checked or `unwrap`ped is an      *)
(* explicit test here, and a failed one makes the run end in               *)
(* [st |-> "panic", why |-> ...].  MC_Mod2 evaluates both algorithms on    *)
(* every system of its bounded set and checks                              *)
(*    no panic,  Ok(a) => Sat(a),  Ok iff Solvable.                        *)
(*                                                                         *)
(* A design equation is [v |-> strictly increasing sequence of variables,  *)
(* c |-> set of planes].                                                   *)
(***************************************************************************)
EXTENDS Mod2, SequencesExt

DEq(e) == [v |-> e.v, c |-> M2Rng(e.c)]
DSys(sys) == [k \in DOMAIN sys.eqs |-> DEq(sys.eqs[k])]

(***************************************************************************)
(* add_ptr: merge of two sorted lists keeping the elements that occur in   *)
(* exactly one of them.  `less`/`more` as in the code; the element is      *)
(* written in any case and `dst` advances only when less # more.  The      *)
(* destination has capacity Len(L) + Len(R): `dst` never exceeds the       *)
(* number of elements consumed.                                            *)
(***************************************************************************)
RECURSIVE AddPtr(_, _, _, _)
AddPtr(L, R, i, j) ==
    IF i <= Len(L) /\ j <= Len(R)
    THEN LET less == L[i] <= R[j]
             more == L[i] >= R[j]
             src  == IF less THEN L[i] ELSE R[j]
         IN  (IF less # more THEN <<src>> ELSE <<>>)
                 \o AddPtr(L, R, IF less THEN i + 1 ELSE i, IF more THEN j + 1 ELSE j)
    ELSE SubSeq(L, i, Len(L)) \o SubSeq(R, j, Len(R))

DAdd(e, f) == [v |-> AddPtr(e.v, f.v, 1, 1), c |-> M2Sym(e.c, f.c)]

DUnsolvable(e) == e.v = <<>> /\ e.c # {}
DIdentity(e)   == e.v = <<>> /\ e.c = {}

\* eval_vars: XOR of the values of the listed variables (bounds-checked reads)
RECURSIVE DEval(_, _, _)
DEval(sol, v, k) == IF k > Len(v) THEN {} ELSE M2Sym(sol[v[k] + 1], DEval(sol, v, k + 1))
DEvalOK(sol, v) == \A k \in DOMAIN v : v[k] + 1 \in DOMAIN sol

Swap(s, i, j) == [s EXCEPT ![i] = s[j], ![j] = s[i]]
Panic(w) == [st |-> "panic", why |-> w]
Err      == [st |-> "err"]

(***************************************************************************)
(* echelon_form.  Inner loop over j for a fixed i; "next" = the inner loop *)
(* ended (or `continue 'main`).                                            *)
(***************************************************************************)
RECURSIVE EchelonJ(_, _, _)
EchelonJ(eqs, i, j) ==
    IF j > Len(eqs) THEN [st |-> "next", eqs |-> eqs]
    ELSE LET ei == eqs[i]
             ej == eqs[j]
         IN  IF ej.v = <<>> THEN Panic("eq_j.vars[0] of an empty list")
             ELSE IF ei.v = <<>> THEN Panic("eq_i.vars[0] of an empty list")
             ELSE LET fj == ej.v[1]
                  IN  IF ei.v[1] = fj
                      THEN LET s    == DAdd(ei, ej)
                               eqs1 == [eqs EXCEPT ![i] = s]
                           IN  IF DUnsolvable(s) THEN Err
                               ELSE IF DIdentity(s) THEN [st |-> "next", eqs |-> eqs1]
                               ELSE IF s.v[1] > fj THEN EchelonJ(Swap(eqs1, i, j), i, j + 1)
                               ELSE EchelonJ(eqs1, i, j + 1)
                      ELSE IF ei.v[1] > fj THEN EchelonJ(Swap(eqs, i, j), i, j + 1)
                      ELSE EchelonJ(eqs, i, j + 1)

RECURSIVE EchelonI(_, _)
EchelonI(eqs, i) ==
    IF i > Len(eqs) - 1 THEN [st |-> "ok", eqs |-> eqs]
    ELSE IF eqs[i].v = <<>> THEN Err                       \* ensure!(!equations[i].vars.is_empty())
    ELSE LET r == EchelonJ(eqs, i, i + 1)
         IN  IF r.st = "next" THEN EchelonI(r.eqs, i + 1) ELSE r

Echelon(eqs) == IF eqs = <<>> THEN [st |-> "ok", eqs |-> eqs] ELSE EchelonI(eqs, 1)

\* back substitution, last equation first, identities skipped
RECURSIVE BackSub(_, _, _)
BackSub(eqs, k, sol) ==
    IF k = 0 THEN [st |-> "ok", a |-> sol]
    ELSE LET e == eqs[k]
         IN  IF DIdentity(e) THEN BackSub(eqs, k - 1, sol)
             ELSE IF e.v = <<>> THEN Panic("eq.vars[0] of an empty list")
             ELSE IF ~DEvalOK(sol, e.v) THEN Panic("solution[var] out of bounds")
             ELSE BackSub(eqs, k - 1, [sol EXCEPT ![e.v[1] + 1] = M2Sym(e.c, DEval(sol, e.v, 1))])

Gauss(nv, eqs) ==
    LET r == Echelon(eqs)
    IN  IF r.st # "ok" THEN r
        ELSE BackSub(r.eqs, Len(r.eqs), [x \in 1 .. nv |-> {}])

(***************************************************************************)
(* setup: weight of a variable = number of equations containing it,        *)
(* priority of an equation = number of its variables, var_to_eq = the      *)
(* equations of each variable in increasing order.                         *)
(***************************************************************************)
Weight0(nv, eqs)   == [x \in 1 .. nv |-> Cardinality({k \in DOMAIN eqs : \E i \in DOMAIN eqs[k].v : eqs[k].v[i] = x - 1})]
Priority0(eqs)     == [k \in DOMAIN eqs |-> Len(eqs[k].v)]
VarToEqs(nv, eqs)  == [x \in 1 .. nv |->
                        SetToSortSeq({k \in DOMAIN eqs : \E i \in DOMAIN eqs[k].v : eqs[k].v[i] = x - 1},
                                     LAMBDA a, b : a < b)]
\* the counting sort: variables by increasing weight, ties by increasing
\* index (it indexes count[weight[x]] with count of length m + 1)
SetupOK(nv, eqs) ==
    /\ \A k \in DOMAIN eqs : \A i \in DOMAIN eqs[k].v : eqs[k].v[i] < nv      \* weight[var] += 1
    /\ \A x \in 1 .. nv : Weight0(nv, eqs)[x] <= Len(eqs)                     \* count[weight[x]]
VarOrder(nv, w) == SetToSortSeq(0 .. nv - 1, LAMBDA a, b : w[a + 1] < w[b + 1] \/ (w[a + 1] = w[b + 1] /\ a < b))

\* (0..m).rev().filter(priority <= 1): a stack whose top is the smallest index
RECURSIVE LightEqs(_, _)
LightEqs(prio, k) == IF k = 0 THEN <<>>
                     ELSE (IF prio[k] <= 1 THEN <<k>> ELSE <<>>) \o LightEqs(prio, k - 1)

Top(s)  == s[Len(s)]
Pop(s)  == SubSeq(s, 1, Len(s) - 1)

(***************************************************************************)
(* The main loop of lazy_gaussian_elimination on the record                *)
(*   [eqs, weight, prio, vars, elist, dense, solved, pivots, idle,         *)
(*    remaining, st].                                                      *)
(* Equation indices are 1-based, variables 0-based as in the code.         *)
(***************************************************************************)
\* variables.pop() until weight # 0
RECURSIVE PopVar(_, _)
PopVar(vars, weight) ==
    IF vars = <<>> THEN [ok |-> FALSE]
    ELSE IF weight[Top(vars) + 1] = 0 THEN PopVar(Pop(vars), weight)
    ELSE [ok |-> TRUE, var |-> Top(vars), vars |-> Pop(vars)]

\* var_to_eqs[var].for_each(|eq| { priority[eq] -= 1; if priority[eq] == 1 { push } })
RECURSIVE Lower(_, _, _)
Lower(s, L, k) ==
    IF k > Len(L) \/ s.st # "run" THEN s
    ELSE LET q == L[k]
         IN  IF s.prio[q] = 0 THEN [s EXCEPT !.st = "panic", !.why = "priority underflow"]
             ELSE Lower([s EXCEPT !.prio[q] = @ - 1,
                                  !.elist = IF s.prio[q] - 1 = 1 THEN Append(@, q) ELSE @], L, k + 1)

\* the same for the equations of a pivot, adding the pivot equation first
RECURSIVE Eliminate(_, _, _, _)
Eliminate(s, L, k, first) ==
    IF k > Len(L) \/ s.st # "run" THEN s
    ELSE LET q == L[k]
         IN  IF q = first THEN Eliminate(s, L, k + 1, first)
             ELSE IF s.prio[q] = 0 THEN [s EXCEPT !.st = "panic", !.why = "priority underflow"]
             ELSE Eliminate([s EXCEPT !.eqs[q] = DAdd(@, s.eqs[first]),
                                      !.prio[q] = @ - 1,
                                      !.elist = IF s.prio[q] - 1 = 1 THEN Append(@, q) ELSE @],
                            L, k + 1, first)

FirstIdle(v, idle) == IF \E i \in DOMAIN v : idle[v[i] + 1]
                      THEN <<v[CHOOSE i \in DOMAIN v : idle[v[i] + 1] /\ \A j \in 1 .. i - 1 : ~idle[v[j] + 1]]>>
                      ELSE <<>>

RECURSIVE LazyLoop(_, _)
LazyLoop(s, v2e) ==
    IF s.st # "run" \/ s.remaining = 0 THEN s
    ELSE IF s.elist = <<>>
    THEN LET r == PopVar(s.vars, s.weight)
         IN  IF ~r.ok THEN [s EXCEPT !.st = "panic", !.why = "variables.pop() on an empty stack"]
             ELSE LazyLoop(Lower([s EXCEPT !.vars = r.vars, !.idle[r.var + 1] = FALSE],
                                 v2e[r.var + 1], 1), v2e)
    ELSE LET first == Top(s.elist)
             t     == [s EXCEPT !.remaining = @ - 1, !.elist = Pop(@)]
             e     == s.eqs[first]
         IN  IF s.prio[first] = 0
             THEN IF DUnsolvable(e) THEN [t EXCEPT !.st = "err"]
                  ELSE IF DIdentity(e) THEN LazyLoop(t, v2e)
                  ELSE LazyLoop([t EXCEPT !.dense = Append(@, e)], v2e)
             ELSE IF s.prio[first] = 1
             THEN LET p == FirstIdle(e.v, s.idle)
                  IN  IF p = <<>> THEN [t EXCEPT !.st = "panic", !.why = "Missing expected idle variable in equation"]
                      ELSE LazyLoop(Eliminate([t EXCEPT !.pivots = Append(@, p[1]),
                                                        !.solved = Append(@, first),
                                                        !.weight[p[1] + 1] = 0],
                                              v2e[p[1] + 1], 1, first), v2e)
             ELSE LazyLoop(t, v2e)

\* pivots in the order in which they were solved
RECURSIVE PivotSub(_, _, _)
PivotSub(s, k, sol) ==
    IF k > Len(s.solved) THEN [st |-> "ok", a |-> sol]
    ELSE LET e == s.eqs[s.solved[k]]
             p == s.pivots[k]
         IN  IF sol[p + 1] # {} THEN Panic("assert!(solution[pivot] == W::ZERO)")
             ELSE IF ~DEvalOK(sol, e.v) THEN Panic("solution[var] out of bounds")
             ELSE PivotSub(s, k + 1, [sol EXCEPT ![p + 1] = M2Sym(e.c, DEval(sol, e.v, 1))])

LazyRun(nv, eqs) ==
    LET w0 == Weight0(nv, eqs)
        p0 == Priority0(eqs)
    IN  LazyLoop([eqs |-> eqs, weight |-> w0, prio |-> p0, vars |-> VarOrder(nv, w0),
                  elist |-> LightEqs(p0, Len(eqs)), dense |-> <<>>, solved |-> <<>>, pivots |-> <<>>,
                  idle |-> [x \in 1 .. nv |-> TRUE], remaining |-> Len(eqs), st |-> "run", why |-> ""],
                 VarToEqs(nv, eqs))

Lazy(nv, eqs) ==
    IF eqs = <<>> THEN [st |-> "ok", a |-> [x \in 1 .. nv |-> {}]]
    ELSE IF ~SetupOK(nv, eqs) THEN Panic("setup: index out of bounds")
    ELSE LET s == LazyRun(nv, eqs)
         IN  IF s.st = "panic" THEN Panic(s.why)
             ELSE IF s.st = "err" THEN Err
             ELSE LET g == Gauss(nv, s.dense)
                  IN  IF g.st # "ok" THEN g ELSE PivotSub(s, 1, g.a)

(***************************************************************************)
(* What MC_Mod2 checks for every system of its bounded set.                *)
(***************************************************************************)
\* the assignment of a design run in the trace representation (sorted lists)
AsLists(a) == [x \in DOMAIN a |-> SortedSeq(a[x])]

DesignOK(r, sys, W) ==
    /\ r.st # "panic"
    /\ r.st = "ok" => Sat(AsLists(r.a), sys, W) /\ SatW(AsLists(r.a), sys)
    /\ (r.st = "ok") <=> Solvable(sys)

AddPtrOK(e, f) == AddPtr(e.v, f.v, 1, 1) = SortedSeq(M2Sym(M2Rng(e.v), M2Rng(f.v)))

\* the dense remainder never mentions an idle variable, pivots are distinct
LazyShapeOK(nv, eqs) ==
    LET s == LazyRun(nv, eqs)
    IN  s.st = "run" =>
          /\ \A k \in DOMAIN s.dense : \A i \in DOMAIN s.dense[k].v : ~s.idle[s.dense[k].v[i] + 1]
          /\ \A a, b \in DOMAIN s.pivots : a # b => s.pivots[a] # s.pivots[b]
          /\ \A a \in DOMAIN s.pivots : s.idle[s.pivots[a] + 1]
          /\ Len(s.solved) + Len(s.dense) <= Len(eqs)
=============================================================================
