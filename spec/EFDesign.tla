------------------------------ MODULE EFDesign ------------------------------
(***************************************************************************)
(* Design-level transcription of src/dict/elias_fano.rs at a scaled size   *)
(* (upper-bits words of W bits instead of 64): the split of every value    *)
(* into  l  lower bits and a unary-coded upper part at position            *)
(* (x >> l) + i  of an array of  n + (u >> l) + 1  bits, random access by  *)
(* select, the iterator's window over the upper-bits words, and the        *)
(* bucket-locate-then-scan algorithms of index_of / succ_unchecked /       *)
(* pred_unchecked behind the guards of the Succ / Pred traits.             *)
(*                                                                         *)
(* Every access that the code performs without a bounds check is explicit: *)
(*   Sel1(r)   select_unchecked(r)       requires r < number of ones       *)
(*   Sel0(r)   select_zero_unchecked(r)  requires r < number of zeros      *)
(*   RdW(k)    high_bits word k          requires k < number of words      *)
(*   RdL(i)    lower bits of element i   requires i < n                    *)
(* An algorithm returns [v |-> result, bad |-> ""|"oob"|"panic"]:  "oob"   *)
(* marks a violated requirement (undefined behaviour in the code, an abort *)
(* under ub_checks),  "panic"  a checked failure.  The invariants say that *)
(* the algorithms compute the order-theoretic definitions of EliasFano and *)
(* are never "oob" (NoOOB), for every monotone sequence, every  l  and     *)
(* every query inside the bounds of the configuration.                     *)
(*                                                                         *)
(* Fixed / FixedPred = TRUE transcribe the repaired code (fix: commits of  *)
(* this family); FALSE the pinned one, for which TLC reports the NoOOB     *)
(* violations found on the real code: iter_from(n) selects the one of rank *)
(* n (Fixed), pred(q) beyond the last bucket selects a zero that does not  *)
(* exist (FixedPred).                                                      *)
(***************************************************************************)
EXTENDS Naturals, Sequences, FiniteSets, EliasFano

CONSTANTS W,         \* bits per word of the upper-bits array
          Fixed,     \* transcribe the repaired iter_from
          FixedPred  \* transcribe the repaired pred_unchecked

RECURSIVE P2(_)
P2(k) == IF k = 0 THEN 1 ELSE 2 * P2(k - 1)
RECURSIVE FloorLg(_)
FloorLg(x) == IF x <= 1 THEN 0 ELSE 1 + FloorLg(x \div 2)
DMax(a, b) == IF a > b THEN a ELSE b
SetMin(S) == CHOOSE x \in S : \A y \in S : x <= y
SetMax(S) == CHOOSE x \in S : \A y \in S : x >= y

\* the code's number of lower bits: floor(lg(u/n)), 0 if u < n; an empty
\* sequence is sized like a singleton (fix: exact integer computation)
CodeL(n, u) == LET q == u \div DMax(n, 1) IN IF q = 0 THEN 0 ELSE FloorLg(q)

\* all non-decreasing sequences of length n over lo..u
RECURSIVE MonoSeqs(_, _, _)
MonoSeqs(n, lo, u) ==
    IF n = 0 THEN {<<>>}
    ELSE UNION {{<<x>> \o s : s \in MonoSeqs(n - 1, x, u)} : x \in lo .. u}

(***************************************************************************)
(* Encoding (EliasFanoBuilder::new / push_unchecked).  xs is 1-based, the  *)
(* code's indices are 0-based.                                             *)
(***************************************************************************)
N(xs)          == Len(xs)
Low(xs, l, i)  == xs[i + 1] % P2(l)                       \* element i, 0-based
HighPos(xs, l, i) == (xs[i + 1] \div P2(l)) + i
HLen(xs, u, l) == N(xs) + (u \div P2(l)) + 1
Ones(xs, l)    == {HighPos(xs, l, i) : i \in 0 .. (N(xs) - 1)}
NWords(xs, u, l) == (HLen(xs, u, l) + W - 1) \div W
NZeros(xs, u, l) == HLen(xs, u, l) - Cardinality(Ones(xs, l))

EncodeOK(xs, u, l) ==
    /\ \A i \in 0 .. (N(xs) - 1) : HighPos(xs, l, i) < HLen(xs, u, l)           \* high_bits.set in range
    /\ \A i \in 0 .. (N(xs) - 2) : HighPos(xs, l, i) < HighPos(xs, l, i + 1)    \* one bit per element
    /\ Cardinality(Ones(xs, l)) = N(xs)
    /\ NZeros(xs, u, l) = (u \div P2(l)) + 1
    /\ \A i \in 0 .. (N(xs) - 1) : Low(xs, l, i) < P2(l)

(***************************************************************************)
(* The encoded structure, computed once:  E = Enc(xs, u, l).               *)
(***************************************************************************)
SortedSeq(S) == LET RECURSIVE Asc(_) Asc(T) == IF T = {} THEN <<>> ELSE <<SetMin(T)>> \o Asc(T \ {SetMin(T)}) IN Asc(S)

Enc(xs, u, l) ==
    LET ones == Ones(xs, l)
        hlen == HLen(xs, u, l)
        nw   == NWords(xs, u, l)
    IN  [xs |-> xs, u |-> u, l |-> l, n |-> N(xs), p2 |-> P2(l),
         hlen  |-> hlen, nw |-> nw,
         high  |-> [i \in 1 .. N(xs) |-> HighPos(xs, l, i - 1)],                 \* high[r+1] = select(r)
         zeros |-> SortedSeq((0 .. (hlen - 1)) \ ones),                           \* zeros[r+1] = select_zero(r)
         words |-> [k \in 1 .. nw |-> {p - (k - 1) * W : p \in {o \in ones : o \div W = k - 1}}],
         low   |-> [i \in 1 .. N(xs) |-> Low(xs, l, i - 1)]]

(***************************************************************************)
(* Checked primitives.                                                     *)
(***************************************************************************)
Ok(v)    == [v |-> v, bad |-> ""]
Bad(why) == [v |-> <<>>, bad |-> why]

Sel1(E, r) == IF r < E.n THEN Ok(E.high[r + 1]) ELSE Bad("oob")
Sel0(E, r) == IF r < Len(E.zeros) THEN Ok(E.zeros[r + 1]) ELSE Bad("oob")
\* bits of word k, as positions inside the word
RdW(E, k)  == IF k < E.nw THEN Ok(E.words[k + 1]) ELSE Bad("oob")
RdL(E, i)  == IF i < E.n THEN Ok(E.low[i + 1]) ELSE Bad("oob")

(***************************************************************************)
(* IndexedSeq::get (checked wrapper + get_unchecked).                      *)
(***************************************************************************)
Get(E, i) ==
    IF i >= E.n THEN Bad("panic")
    ELSE LET s == Sel1(E, i) IN
         IF s.bad # "" THEN s
         ELSE Ok(((s.v - i) * E.p2) + E.low[i + 1])

(***************************************************************************)
(* EliasFanoIterator::new / new_from / next.                               *)
(***************************************************************************)
RECURSIVE IterRun(_, _, _, _, _, _)
\* yields the values from `index` on; window = not yet consumed bits of word widx
IterRun(E, index, widx, window, acc, fuel) ==
    IF index >= E.n THEN Ok(acc)
    ELSE IF fuel = 0 THEN Bad("oob")                     \* ran off the array
    ELSE IF window = {}
    THEN LET w == RdW(E, widx + 1) IN
         IF w.bad # "" THEN w
         ELSE IterRun(E, index, widx + 1, w.v, acc, fuel - 1)
    ELSE LET b   == SetMin(window)
             hi  == widx * W + b - index
             lo  == RdL(E, index)
         IN  IF lo.bad # "" THEN lo
             ELSE IterRun(E, index + 1, widx, window \ {b},
                          Append(acc, hi * E.p2 + lo.v), fuel - 1)

IterFuel(E) == E.hlen + E.nw + 2

Iter(E) ==
    LET w0 == RdW(E, 0) IN        \* the array always has at least one word
    IF w0.bad # "" THEN w0 ELSE IterRun(E, 0, 0, w0.v, <<>>, IterFuel(E))

IterFrom(E, k) ==
    IF k > E.n THEN Bad("panic")
    ELSE IF Fixed /\ k = E.n THEN IterRun(E, k, 0, {}, <<>>, IterFuel(E))
    ELSE LET s == Sel1(E, k) IN
         IF s.bad # "" THEN s
         ELSE LET w == RdW(E, s.v \div W) IN
              IF w.bad # "" THEN w
              ELSE IterRun(E, k, s.v \div W, {b \in w.v : b >= s.v % W}, <<>>, IterFuel(E))

(***************************************************************************)
(* index_of and succ_unchecked: locate the bucket of the query by          *)
(* select_zero, then scan forward.  mode: "index" | "succ" | "succ_strict" *)
(***************************************************************************)
RECURSIVE ScanFwd(_, _, _, _, _, _, _)
ScanFwd(E, q, mode, rank, widx, window, fuel) ==
    IF fuel = 0 THEN Bad("oob")
    ELSE IF window = {}
    THEN IF mode = "index" /\ widx + 1 >= E.nw THEN Ok(<<>>)     \* `return None`
         ELSE LET w == RdW(E, widx + 1) IN
              IF w.bad # "" THEN w
              ELSE ScanFwd(E, q, mode, rank, widx + 1, w.v, fuel - 1)
    ELSE LET b  == SetMin(window)
             hi == widx * W + b - rank
             lo == RdL(E, rank)            \* iter.next_unchecked()
         IN  IF lo.bad # "" THEN lo
             ELSE LET res == hi * E.p2 + lo.v IN
                  IF mode = "index"
                  THEN IF res = q THEN Ok(<<rank>>)
                       ELSE IF res > q THEN Ok(<<>>)
                       ELSE ScanFwd(E, q, mode, rank + 1, widx, window \ {b}, fuel - 1)
                  ELSE IF (mode = "succ_strict" /\ res > q) \/ (mode = "succ" /\ res >= q)
                       THEN Ok(<<[i |-> rank, v |-> res]>>)
                       ELSE ScanFwd(E, q, mode, rank + 1, widx, window \ {b}, fuel - 1)

Locate(E, q, mode) ==
    LET z  == q \div E.p2
        s  == IF z = 0 THEN Ok(0) ELSE Sel0(E, z - 1)
    IN  IF s.bad # "" THEN s
        ELSE LET bitpos == IF z = 0 THEN 0 ELSE s.v + 1
                 rank   == bitpos - z
             IN  IF rank > E.n THEN Bad("panic")          \* into_unchecked_iter_from checks its start
                 ELSE LET w == RdW(E, bitpos \div W) IN
                      IF w.bad # "" THEN w
                      ELSE ScanFwd(E, q, mode, rank, bitpos \div W,
                                   {b \in w.v : b >= bitpos % W}, IterFuel(E))

IndexOf(E, q) == IF q > E.u THEN Ok(<<>>) ELSE Locate(E, q, "index")

\* Succ::succ / succ_strict: the guard uses get(len - 1)
Succ(E, q, strict) ==
    IF E.n = 0 THEN Ok(<<>>)
    ELSE LET last == Get(E, E.n - 1) IN
         IF last.bad # "" THEN last
         ELSE IF (strict /\ q >= last.v) \/ (~strict /\ q > last.v) THEN Ok(<<>>)
         ELSE Locate(E, q, IF strict THEN "succ_strict" ELSE "succ")

(***************************************************************************)
(* pred_unchecked: locate the END of the bucket, scan backwards.           *)
(***************************************************************************)
RECURSIVE PredBack(_, _, _, _)
\* the bit at bitpos is zero: the predecessor is the previous one in the array
PredBack(E, widx, window, zeros) ==
    IF window # {} THEN Ok([window |-> window, zeros |-> zeros])
    ELSE IF widx = 0 THEN Bad("oob")                          \* word_idx -= 1 below zero
    ELSE LET w == RdW(E, widx - 1) IN
         IF w.bad # "" THEN w ELSE PredBack(E, widx - 1, w.v, zeros + W)

RECURSIVE PredScan(_, _, _, _, _, _)
PredScan(E, qlow, strict, bitpos, rank, fuel) ==
    IF fuel = 0 THEN Bad("oob")
    ELSE LET lo == RdL(E, rank) IN                        \* rev iter.next_unchecked()
    IF lo.bad # "" THEN lo
    ELSE LET widx == bitpos \div W
             bidx == bitpos % W
             w    == RdW(E, widx)
         IN  IF w.bad # "" THEN Bad("panic")                  \* self.high_bits.get(word_idx) is checked
             ELSE IF bidx \notin w.v
             THEN LET back == PredBack(E, widx, {b \in w.v : b < bidx}, bidx) IN
                  IF back.bad # "" THEN back
                  ELSE LET lz == (W - 1) - SetMax(back.v.window)        \* leading zeros of the window
                           hp == (W - 1) + bitpos - back.v.zeros - lz   \* position of that one
                       IN  IF hp < rank THEN Bad("oob")
                           ELSE Ok(<<[i |-> rank, v |-> (hp - rank) * E.p2 + lo.v]>>)
             ELSE IF (strict /\ lo.v < qlow) \/ (~strict /\ lo.v <= qlow)
             THEN Ok(<<[i |-> rank, v |-> (bitpos - rank) * E.p2 + lo.v]>>)
             ELSE IF bitpos = 0 \/ rank = 0 THEN Bad("oob")   \* bit_pos -= 1 / rank -= 1 below zero
             ELSE PredScan(E, qlow, strict, bitpos - 1, rank - 1, fuel - 1)

PredUnchecked(E, q, strict) ==
    LET beyond == FixedPred /\ q > E.u
        z    == IF beyond THEN E.u \div E.p2 ELSE q \div E.p2
        \* beyond u every lower part of the last bucket qualifies
        qlow == IF beyond THEN E.p2 ELSE q % E.p2
        s    == Sel0(E, z)
    IN  IF s.bad # "" THEN s
        ELSE IF s.v = 0 \/ s.v - 1 < z THEN Bad("oob")        \* select_zero(..) - 1, bit_pos - zeros_to_skip
        ELSE LET bitpos == s.v - 1
                 rank   == bitpos - z
             IN  IF rank + 1 > E.n THEN Bad("panic")        \* into_rev_unchecked_iter_from checks its start
                 ELSE PredScan(E, qlow, strict, bitpos, rank, IterFuel(E))

\* Pred::pred / pred_strict: the guard uses get(0)
Pred(E, q, strict) ==
    IF E.n = 0 THEN Ok(<<>>)
    ELSE LET first == Get(E, 0) IN
         IF first.bad # "" THEN first
         ELSE IF (strict /\ q <= first.v) \/ (~strict /\ q < first.v) THEN Ok(<<>>)
         ELSE PredUnchecked(E, q, strict)

(***************************************************************************)
(* Design invariants: the algorithms equal the abstract definitions of     *)
(* EliasFano (on wide numbers) and never leave their arrays.               *)
(***************************************************************************)
WX(xs) == [i \in 1 .. Len(xs) |-> WOfNat(xs[i])]
WPair(r) == IF r = <<>> THEN <<>> ELSE <<[i |-> r[1].i, v |-> WOfNat(r[1].v)]>>

DecodeOK(xs, u, l) ==
    LET E == Enc(xs, u, l) IN
    /\ \A i \in 0 .. (N(xs) - 1) :                                          \* decode o encode = id
          LET g == Get(E, i) IN g.bad = "" /\ g.v = xs[i + 1]
    /\ Get(E, N(xs)).bad = "panic"
    /\ LET it == Iter(E) IN it.bad = "" /\ it.v = xs
    /\ \A k \in 0 .. N(xs) :
          LET it == IterFrom(E, k) IN it.bad = "" /\ it.v = SubSeq(xs, k + 1, N(xs))
    /\ IterFrom(E, N(xs) + 1).bad = "panic"

QueryOK(xs, u, l, q) ==
    LET E  == Enc(xs, u, l)
        X  == WX(xs)
        wq == WOfNat(q)
        io == IndexOf(E, q)
    IN  /\ io.bad = "" /\ io.v \in IndexOfDef(X, wq)
        /\ \A strict \in BOOLEAN :
              LET s == Succ(E, q, strict)
                  p == Pred(E, q, strict)
              IN  /\ s.bad = "" /\ WPair(s.v) \in SuccDef(X, wq, strict)
                  /\ p.bad = "" /\ WPair(p.v) \in PredDef(X, wq, strict)
                  \* the binary-search form used by trace validation accepts them too
                  /\ SuccOK(X, wq, strict, WPair(s.v)) /\ PredOK(X, wq, strict, WPair(p.v))
        /\ IndexOfOK(X, wq, io.v)

\* the unchecked variants inside their documented precondition (EfDict)
UncheckedOK(xs, u, l, q) ==
    LET E == Enc(xs, u, l) X == WX(xs) wq == WOfNat(q) IN
    \A strict \in BOOLEAN :
        /\ SuccExists(X, wq, strict) =>
              LET s == Locate(E, q, IF strict THEN "succ_strict" ELSE "succ")
              IN  s.bad = "" /\ WPair(s.v) \in SuccDef(X, wq, strict)
        /\ PredExists(X, wq, strict) =>
              LET p == PredUnchecked(E, q, strict)
              IN  p.bad = "" /\ WPair(p.v) \in PredDef(X, wq, strict)
=============================================================================
