SPECIFICATION MCSpec
CONSTANTS
  RB = 2
  Kinds = {"online", "offline"}
  BBs = {0, 1, 2}
  MBs = {0, 1, 2, 3}
  Tops = {0, 1, 2, 3, 4, 5, 6, 7}
  Lows = {0}
  MaxPush = 4
  MaxBorrowed = 1
  Partial = FALSE
  BadBits = TRUE
  Export = FALSE
VIEW View
INVARIANTS TypeOK StoreInv SizesInv PrefixInv PassInv AgreeInv WitnessInv NoOOB ContractInv
CHECK_DEADLOCK FALSE
