SPECIFICATION MCSpec
CONSTANTS
  InstOf <- Ident
  W = 8
  Widths = {0, 1, 2, 3, 4, 5, 6, 7}
  NThreads = {2}
  Menu = {"near"}
  AllValues = FALSE
  Rots = {0, 1}
  PatSet = {"zeros", "ones", "alt"}
  Boundaries = {1}
  NearFields = 6
  EFN = {}
  EFMaxThreads = 3
  MaxT = 3
  Export = TRUE
INVARIANTS Emit
CHECK_DEADLOCK FALSE
