SPECIFICATION DSpec
CONSTANTS
  W = 4
  Fixed = TRUE
  FixedPred = TRUE
  MaxN = 4
  MaxU = 9
  AllL = TRUE
INVARIANTS Encoded Queried
CHECK_DEADLOCK FALSE
