--------------------------- MODULE Trace_BitField ---------------------------
(***************************************************************************)
(* Trace validation for the "bitfield" family: decides whether a recorded  *)
(* execution of the real BitFieldVec / AtomicBitFieldVec (any of the six   *)
(* word types; the BEGIN event of an episode carries `wt`) is a behaviour  *)
(* of BitField.  One trace line = one public call = one step.  Handlers    *)
(* are total: a line the specification does not admit prints MISMATCH and  *)
(* the rest of its episode is skipped, so one run reports every rejected   *)
(* episode.  `abort` and `hang` outcomes are admitted nowhere (C12).       *)
(***************************************************************************)
EXTENDS BitField, Json, IOUtils, TLC

Rec == ndJsonDeserialize(IOEnv.TRACE)

VARIABLES l, skip
tvars == <<wt, width, abs, store, nw, form, built, l, skip>>

TraceInit == BFInit("usize") /\ l = 1 /\ skip = FALSE

\* growth choice read from the log (C05/C10/C14 do not fix it; C11 bounds it via mem_size)
GrowthOf(ev, x) ==
    LET a    == x.st.abs
        base == IF ev.op \in Ctors \/ ev.op = "reload" THEN 0 ELSE nw
        lo   == MaxOf(base * W, Len(a) * x.st.width)
    IN  [nw |-> ev.nw, garb |-> {p \in ToSet(ev.store) : p >= lo}, width |-> ev.width]

ResultOK(ev, x) ==
    CASE x.rk = "none"  -> TRUE
      [] x.rk = "any"   -> TRUE
      [] x.rk = "int"   -> ev.res = x.res
      [] x.rk = "val"   -> ToSet(ev.res) = x.res
      [] x.rk = "vals"  -> Vals(ev.res) = x.res
      [] x.rk = "oval"  -> Vals(ev.res) = x.res
      [] x.rk = "copy"  -> CopyOK(ev.res)
      [] x.rk = "other" -> /\ ev.res.olen = x.res.olen /\ ev.res.onw = x.res.onw
                           /\ ToSet(ev.res.ostore) = x.res.ostore
      [] x.rk = "chunks" ->
             /\ ev.res.ok = x.res.ok
             /\ ev.res.lens = x.res.lens
             /\ [k \in 1 .. Len(ev.res.acts) |-> [k |-> ev.res.acts[k].k, v |-> ToSet(ev.res.acts[k].v)]] = x.res.acts
      [] x.rk = "mem"   -> ev.res <= x.res
      [] x.rk = "plain" ->
             /\ Vals(ev.res.fin) = x.res.fin
             /\ [k \in 1 .. Len(ev.res.acts) |->
                    PRes(ev.res.acts[k].k, ToSet(ev.res.acts[k].v), Vals(ev.res.acts[k].vs), ev.res.acts[k].n)] = x.res.res

\* first reason for which the logged event differs from what the spec admits
Why(ev, x, g) ==
    IF ev.out # x.out THEN "outcome"
    ELSE IF x.out = "ret" /\ ~GrowOK(ev, x.st.abs, x.st.width, g) THEN "backend-too-small"
    ELSE IF ev.len # Len(x.st.abs) THEN "len"
    ELSE IF ev.width # x.st.width THEN "width"
    ELSE IF ev.form # x.st.form THEN "form"
    ELSE IF ev.nw # x.st.nw THEN "nwords"
    ELSE IF ToSet(ev.store) # x.st.store THEN "store"
    ELSE IF x.out = "ret" /\ ~ResultOK(ev, x) THEN "result"
    ELSE IF x.out = "ret" /\ ev.op \in {"apply", "apply_unchecked"} /\ Vals(ev.calls) # abs THEN "calls"
    ELSE "ok"

Step ==
    /\ l <= Len(Rec)
    /\ l' = l + 1
    /\ LET ev == Rec[l] IN
       IF ev.op = "BEGIN"
       THEN /\ wt' = ev.wt /\ width' = 0 /\ abs' = <<>> /\ store' = {} /\ nw' = 0 /\ form' = "none"
            /\ built' = "no" /\ skip' = FALSE
       ELSE IF skip THEN UNCHANGED <<wt, width, abs, store, nw, form, built, skip>>
       ELSE LET logged == ev.out \in {"ret", "panic", "na"}
                g0 == [nw |-> nw, garb |-> {}, width |-> IF logged THEN ev.width ELSE width]
                x0 == Eff(ev, g0)                  \* outcome and contents do not depend on nw, garb
                g  == IF logged THEN GrowthOf(ev, x0) ELSE g0
                x1 == Eff(ev, g)
                x  == IF x1.maypanic /\ ev.out = "panic" THEN Panic ELSE x1
                w  == Why(ev, x, g)
            IN  IF w = "ok"
                THEN Install(x.st) /\ skip' = FALSE
                ELSE /\ PrintT(<<"MISMATCH", ev.ep, ev.seq, ev.op, w>>)
                     /\ skip' = TRUE
                     /\ UNCHANGED <<wt, width, abs, store, nw, form, built>>

Finish == /\ l = Len(Rec) + 1
          /\ PrintT(<<"TRACE-END", Len(Rec)>>)
          /\ l' = l + 1
          /\ UNCHANGED <<wt, width, abs, store, nw, form, built, skip>>

TraceNext == Step \/ Finish
TraceSpec == TraceInit /\ [][TraceNext]_tvars

\* every line was consumed (diameter counts the initial state and Finish)
TraceAccepted == TLCGet("stats").diameter = Len(Rec) + 2

\* the design invariants must also hold along every implementation trace
TraceInv == skip \/ (Refines /\ LargeEnough)
=============================================================================
