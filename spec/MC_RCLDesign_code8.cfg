\* the real byte size: the code boundaries 128, 16512, 2113664 of the Rust code
SPECIFICATION MCSpec
CONSTANTS
  BITS = 8
  Fixed = TRUE
  Ks = {2}
  Alphabet = {97, 200}
  MaxLen = 1
  MaxN = 2
  Over = 2
  CodeVals = {0, 1, 127, 128, 129, 383, 384, 16511, 16512, 16513, 16767, 16768, 16769, 82047, 82048, 82049, 2113663, 2113664, 2113665}
  Export = FALSE
INVARIANTS InvType InvSorted InvGet InvIter InvIndex InvSize InvCode
CHECK_DEADLOCK FALSE
