SPECIFICATION MCFairSpec
CONSTANTS
  MaxN = 2
  Thr = {1, 2}
  MaxPass = 3
  MaxTransient = 2
  Order = "fixed"
  Export = FALSE
INVARIANTS DesignAccepted ResultAsExpected Bounded
PROPERTY Termination
CHECK_DEADLOCK FALSE
