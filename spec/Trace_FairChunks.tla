--------------------------- MODULE Trace_FairChunks ---------------------------
(* Trace validation for the "chunks" family: each recorded call of           *)
(* FairChunks::next on the real code must be one of the admissible results   *)
(* of FairChunks!NextChoices.                                                *)
EXTENDS FairChunks, Json, IOUtils, TLC

Rec == ndJsonDeserialize(IOEnv.TRACE)

VARIABLES l, skip
tvars == <<wts, target, cum, pos, cw, done, l, skip>>

TraceInit == FCInit(<<>>, 0) /\ l = 1 /\ skip = FALSE

Step ==
    /\ l <= Len(Rec)
    /\ l' = l + 1
    /\ LET ev == Rec[l] IN
       IF ev.op = "BEGIN"
       THEN /\ wts' = ev.wts /\ target' = ev.target /\ cum' = CumOf(ev.wts) /\ pos' = 0 /\ cw' = 0 /\ done' = FALSE
            /\ skip' = FALSE
       ELSE IF skip THEN UNCHANGED <<wts, target, cum, pos, cw, done, skip>>
       ELSE LET ok == IF ev.out # "ret" THEN {} ELSE {c \in NextChoices : c.res = ev.res}
            IN  IF ok # {}
                THEN Install(CHOOSE c \in ok : TRUE) /\ skip' = FALSE
                ELSE /\ PrintT(<<"MISMATCH", ev.ep, ev.seq, ev.op,
                                 IF ev.out # "ret" THEN "outcome" ELSE "result">>)
                     /\ skip' = TRUE
                     /\ UNCHANGED <<wts, target, cum, pos, cw, done>>

Finish == /\ l = Len(Rec) + 1
          /\ PrintT(<<"TRACE-END", Len(Rec)>>)
          /\ l' = l + 1
          /\ UNCHANGED <<wts, target, cum, pos, cw, done, skip>>

TraceNext == Step \/ Finish
TraceSpec == TraceInit /\ [][TraceNext]_tvars
TraceAccepted == TLCGet("stats").diameter = Len(Rec) + 2
TraceInv == skip \/ Consistent
=============================================================================
