---------------------------- MODULE Trace_VBuild ----------------------------
(***************************************************************************)
(* Trace validation for the "vbuild" family: decides whether a recorded    *)
(* execution of the real VBuilder / VFunc / VFilter is a behaviour of      *)
(* VBuild.  One trace line = one public call = one step.                   *)
(*                                                                         *)
(* A `build` line carries the hook events of the build loop; they must be  *)
(* a run of VBuild!Step from InitLoop under the configuration of the line  *)
(* (fault placement, duplicates, hint), the returned result must be the    *)
(* one VBuild!Expected prescribes for the state in which the events stop,  *)
(* and OkIsWhole / ErrorsSurface / DupBound must hold in that state.       *)
(* Query lines are judged against the abstract map of the last build.      *)
(* The (large) input of a build never enters the state: the state is the   *)
(* index `cur` of the build line.                                          *)
(***************************************************************************)
EXTENDS VBuild, Json, IOUtils, TLC, SequencesExt

Rec == ndJsonDeserialize(IOEnv.TRACE)

VARIABLES l, skip,
          cur,     \* index in Rec of the last build line (0: none)
          built,   \* "none" | "func" | "filter": what that build returned
          mode     \* "owned" | "view": instance queried (view after reload eps/mmap)
tvars == <<l, skip, cur, built, mode>>

TraceInit == l = 1 /\ skip = FALSE /\ cur = 0 /\ built = "none" /\ mode = "owned"

(***************************************************************************)
(* build                                                                   *)
(***************************************************************************)
CfgOf(b) == [n |-> b.n, dups |-> HasDups(b), checkDups |-> b.check_dups,
             filter |-> b.kind = "filter", hint |-> b.hint, vn |-> b.vals.vn,
             faults |-> SeqToSet(b.faults)]

\* the state after the recorded hook events (a rejection is absorbing)
RunFrom(s0, c, evs, k) ==
    FoldLeft(LAMBDA s, e : IF s.pc = "rejected" THEN s ELSE Step(s, c, e), s0, evs)

FaultStr(f) ==
    IF f.kind = "rewind" THEN f.src \o ":rewind:" \o ToString(f.pass)
    ELSE f.src \o ":" \o ToString(f.pass) \o ":" \o ToString(f.idx)

LastOf(s) == s[Len(s)]

WhyBuild(b) ==
    LET c == CfgOf(b)
        f == RunFrom(InitLoop, c, b.events, 1)
        x == Expected(f, c)
    IN
    IF ~SubstOK(b) THEN "bad-script"
    ELSE IF c.dups /\ ~c.checkDups THEN "out-of-domain"
    ELSE IF b.out \notin {"ret", "panic"} THEN "outcome"
    ELSE IF f.pc = "rejected" THEN f.bad
    ELSE IF x.kind = "impossible" THEN x.err
    ELSE IF x.kind = "panic" THEN
         \* the value source is shorter than the key source: outside the
         \* properties; the call must fail one way or the other
         (IF b.out = "panic" \/ (b.out = "ret" /\ b.res = "err") THEN "ok" ELSE "ok-without-values")
    ELSE IF b.out # "ret" THEN "outcome"
    ELSE IF x.kind = "ok" /\ b.res # "ok" THEN "error-returned"
    ELSE IF x.kind = "err" /\ b.res # "err" THEN "error-not-returned"
    ELSE IF x.kind = "err" /\ b.err # <<x.err>> THEN "error-kind"
    ELSE IF x.kind = "err" /\ x.err = "io" /\ ~\E g \in x.faults : FaultStr(g) = b.emsg THEN "error-identity"
    ELSE IF ~OkIsWhole(f, c) THEN "ok-is-whole"
    ELSE IF ~ErrorsSurface(f, c) THEN "errors-surface"
    ELSE IF ~DupBound(f, c) THEN "dup-bound"
    ELSE IF b.hint = <<>> /\ f.bucketBits # (IF b.log2_buckets = <<>> THEN 8 ELSE b.log2_buckets[1])
         THEN "bucket-bits"
    ELSE IF b.hint = <<b.n>> /\ f.firstBits # <<>> /\ f.bucketBits # f.firstBits[1] THEN "hint-bits"
    ELSE IF x.kind = "ok" /\ (b.kreads = <<>> \/ LastOf(b.kreads) < b.n + 1) THEN "keys-not-all-read"
    ELSE IF x.kind = "ok" /\ ~c.filter /\ b.n > 0 /\ (b.vreads = <<>> \/ LastOf(b.vreads) < b.n)
         THEN "values-not-all-read"
    ELSE "ok"

(***************************************************************************)
(* queries                                                                 *)
(***************************************************************************)
IdxOf(ev) == IF "idx" \in DOMAIN ev THEN ev.idx
             ELSE [k \in 1 .. ev.count |-> ev.from + k - 1]

NumShards(b) ==
    LET S == {k \in 1 .. Len(b.events) : b.events[k][1] = "num_shards"}
    IN  IF S = {} THEN 1 ELSE b.events[CHOOSE k \in S : \A j \in S : j <= k][2]

\* value admitted for member index i (one position holds it: keys are distinct)
ValueOK(b, i, r, wide) ==
    LET p == CHOOSE q \in PosOf(b, i) : TRUE
    IN  IF wide THEN r = ValWide(b, p) ELSE r = ValPlain(b, p)

WhyQuery(ev, b) ==
    LET o == ev.op IN
    IF built = "none" THEN (IF ev.out = "na" THEN "ok" ELSE "no-structure")
    ELSE CASE
      o = "len" ->
        IF ev.out # "ret" THEN "outcome" ELSE IF ev.res # b.n THEN "len" ELSE "ok"
    [] o = "is_empty" ->
        IF ev.out # "ret" THEN "outcome" ELSE IF ev.res # (b.n = 0) THEN "is-empty" ELSE "ok"
    [] o \in {"get", "get_unaligned"} ->
        LET idx == IdxOf(ev)
            app == o = "get" \/ (built = "func" /\ b.backend = "bfv" /\ mode = "owned")
        IN  IF ~app THEN (IF ev.out = "na" THEN "ok" ELSE "not-applicable")
            ELSE IF ev.out = "panic" /\ \E k \in 1 .. Len(idx) : ~Member(b, idx[k]) THEN "ok"
            ELSE IF ev.out # "ret" THEN "outcome"
            ELSE IF Len(ev.res) # Len(idx) THEN "result-length"
            ELSE IF built = "func" /\ \E k \in 1 .. Len(idx) :
                        Member(b, idx[k]) /\ ~ValueOK(b, idx[k], ev.res[k], ev.wide)
                 THEN "wrong-value"
            ELSE "ok"
    [] o \in {"contains", "index", "contains_unaligned"} ->
        LET idx == IdxOf(ev)
            app == built = "filter" /\ (o # "contains_unaligned" \/ (b.backend = "bfv" /\ mode = "owned"))
        IN  IF ~app THEN (IF ev.out = "na" THEN "ok" ELSE "not-applicable")
            ELSE IF ev.out = "panic" /\ \E k \in 1 .. Len(idx) : ~Member(b, idx[k]) THEN "ok"
            ELSE IF ev.out # "ret" THEN "outcome"
            ELSE IF Len(ev.res) # Len(idx) THEN "result-length"
            ELSE IF \E k \in 1 .. Len(idx) : Member(b, idx[k]) /\ ev.res[k] # TRUE THEN "false-negative"
            ELSE "ok"
    [] o = "hash_bits" ->
        IF built # "filter" THEN (IF ev.out = "na" THEN "ok" ELSE "not-applicable")
        ELSE IF ev.out # "ret" THEN "outcome"
        ELSE IF ev.res # HashBits(b) THEN "hash-bits" ELSE "ok"
    [] o = "probe" ->
        IF built # "filter" THEN (IF ev.out = "na" THEN "ok" ELSE "not-applicable")
        ELSE IF ev.from < IdxBound(b) THEN "bad-script"
        ELSE IF ev.out # "ret" THEN "outcome"
        ELSE IF ~FpOk(HashBits(b), ev.m, ev.res) THEN "false-positive-rate" ELSE "ok"
    [] o = "mem_size" ->
        IF ev.out # "ret" THEN "outcome"
        ELSE IF ev.res >= 200000000 THEN "space"
        ELSE IF ev.res * 8 > MemBoundBits23(b, NumShards(b)) THEN "space-gross"
        ELSE IF ev.res * 8 > MemBoundBits(b, NumShards(b)) THEN "space" ELSE "ok"
    [] o = "reload" ->
        IF ev.out # "ret" THEN "outcome" ELSE IF ev.res # "ok" THEN "reload-failed" ELSE "ok"
    [] OTHER -> "unknown-op"

Step1 ==
    /\ l <= Len(Rec)
    /\ l' = l + 1
    /\ LET ev == Rec[l] IN
       IF ev.op = "BEGIN"
       THEN cur' = 0 /\ built' = "none" /\ mode' = "owned" /\ skip' = FALSE
       ELSE IF skip THEN UNCHANGED <<cur, built, mode, skip>>
       ELSE IF ev.op = "build"
       THEN LET w == WhyBuild(ev) IN
            IF w = "ok"
            THEN /\ cur' = l /\ mode' = "owned" /\ skip' = FALSE
                 /\ built' = IF ev.out = "ret" /\ ev.res = "ok" THEN ev.kind ELSE "none"
            ELSE /\ PrintT(<<"MISMATCH", ev.ep, ev.seq, ev.op, w>>)
                 /\ skip' = TRUE /\ UNCHANGED <<cur, built, mode>>
       ELSE LET w == IF cur = 0 THEN (IF ev.out = "na" THEN "ok" ELSE "no-structure")
                     ELSE WhyQuery(ev, Rec[cur]) IN
            IF w = "ok"
            THEN /\ mode' = IF ev.op = "reload" /\ ev.out = "ret"
                            THEN (IF ev.mode = "full" THEN "owned" ELSE "view") ELSE mode
                 /\ UNCHANGED <<cur, built, skip>>
            ELSE /\ PrintT(<<"MISMATCH", ev.ep, ev.seq, ev.op, w>>)
                 /\ skip' = TRUE /\ UNCHANGED <<cur, built, mode>>

Finish == /\ l = Len(Rec) + 1
          /\ PrintT(<<"TRACE-END", Len(Rec)>>)
          /\ l' = l + 1
          /\ UNCHANGED <<cur, built, mode, skip>>

TraceNext == Step1 \/ Finish
TraceSpec == TraceInit /\ [][TraceNext]_tvars

\* every line was consumed (diameter counts the initial state and Finish)
TraceAccepted == TLCGet("stats").diameter = Len(Rec) + 2
=============================================================================
