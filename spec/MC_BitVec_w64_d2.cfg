SPECIFICATION MCSpec
CONSTANTS
  W = 64
  MaxWords = 4
  Depth = 2
  Lens = {0, 1, 63, 64, 65, 128, 129}
  Export = TRUE
CONSTRAINT Bound
INVARIANTS Refines LargeEnough Emit
CHECK_DEADLOCK FALSE
