SPECIFICATION MCSpec
CONSTANTS
  MaxV = 2
  MaxE = 3
  CBits = {0, 5}
  Part = 4
  Export = FALSE
INVARIANTS DomainOK SolvAgree SatAgree GaussOK LazyOK LazyShape AddOK
CHECK_DEADLOCK FALSE
