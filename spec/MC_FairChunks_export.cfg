SPECIFICATION MCSpec
CONSTANTS
  MaxN = 4
  MaxWt = 2
  MaxT = 4
  Export = TRUE
INVARIANTS Consistent Emit
CHECK_DEADLOCK FALSE
