#!/bin/sh
# Builds the framework offline from files on disk: the executor in both profiles.
set -e
cd "$(dirname "$0")"
export CARGO_NET_OFFLINE=true
mkdir -p work evidence replays
(cd harness && cargo build --offline --profile verif --bin exec && cargo build --offline --release --bin exec)
# TLC and the community modules must be present
java -cp /opt/veriftools/tla/tla2tools.jar:/opt/veriftools/tla/CommunityModules-deps.jar tlc2.TLC -h >/dev/null 2>&1 || true
echo setup ok
